#!/usr/bin/env python3
"""strace log -> ordered list of file-system events below a root directory (plus marker writes).

Input : an strace log recorded with  -f -y -xx -s <big> -e trace=<file mutation calls>
Output: JSON {"root": ..., "events": [...]} where each event is one of
  {"t":"mkdir","path":P}
  {"t":"create","path":P,"trunc":bool}            openat with O_CREAT (new inode or truncate)
  {"t":"write","path":P,"off":N,"data":HEX}
  {"t":"truncate","path":P,"len":N}
  {"t":"fsync","path":P}                           file or directory (the consumer knows which)
  {"t":"rename","from":P,"to":P}
  {"t":"unlink","path":P}
  {"t":"marker","text":S}                          a write to the marker file
Paths are relative to root. Failed calls (return -1) and calls outside root are dropped,
except that a *failed* mutating call is reported as {"t":"failed", ...} for the fault engine.
"""
import json, re, sys

CALL = re.compile(r'^(?:(\d+)\s+)?(\w+)\((.*)\)\s+=\s+(-?\d+|\?)(?:<[^>]*>)?(?:\s+(\w+)\s+\((.*)\))?\s*$')
FDPATH = re.compile(r'^(\d+|AT_FDCWD)<(.*)>$')


def unhex(s):
    """strace -xx string literal (without quotes) -> bytes"""
    out = bytearray()
    i = 0
    while i < len(s):
        if s[i] == '\\' and i + 3 < len(s) + 1 and s[i + 1] == 'x':
            out.append(int(s[i + 2:i + 4], 16))
            i += 4
        else:
            out.append(ord(s[i]))
            i += 1
    return bytes(out)


def split_args(a):
    """split a syscall argument list at top-level commas (strings may contain anything escaped as \\x..)"""
    args, cur, depth, instr = [], '', 0, False
    i = 0
    while i < len(a):
        c = a[i]
        if instr:
            cur += c
            if c == '"':
                instr = False
        elif c == '"':
            instr = True
            cur += c
        elif c in '([{<':
            depth += 1
            cur += c
        elif c in ')]}>':
            depth -= 1
            cur += c
        elif c == ',' and depth == 0:
            args.append(cur.strip())
            cur = ''
        else:
            cur += c
        i += 1
    if cur.strip():
        args.append(cur.strip())
    return args


def strlit(x):
    x = x.strip()
    if x.endswith('...'):
        x = x[:-3]
    if x.startswith('"') and x.endswith('"'):
        return unhex(x[1:-1])
    return None


def parse(trace_path, root, marker_path):
    root = root.rstrip('/')
    events = []
    pos = {}  # (pid, fd) -> position
    unfinished = {}

    def rel(p):
        if p == root:
            return ''
        if p.startswith(root + '/'):
            return p[len(root) + 1:]
        return None

    with open(trace_path, 'r', errors='replace') as f:
        for line in f:
            line = line.rstrip('\n')
            # join "<unfinished ...>" / "<... resumed>" pairs (rare when single threaded)
            m = re.match(r'^(\d+)\s+(.*) <unfinished \.\.\.>$', line)
            if m:
                unfinished[m.group(1)] = m.group(2)
                continue
            m = re.match(r'^(\d+)\s+<\.\.\. \w+ resumed>(.*)$', line)
            if m and m.group(1) in unfinished:
                line = m.group(1) + ' ' + unfinished.pop(m.group(1)) + m.group(2)
            m = CALL.match(line)
            if not m:
                continue
            pid, name, argstr, ret, errname = m.group(1) or '0', m.group(2), m.group(3), m.group(4), m.group(5)
            ok = ret not in ('-1', '?')
            args = split_args(argstr)

            def fdinfo(a):
                mm = FDPATH.match(a.strip())
                if not mm:
                    return (None, None)
                fd = -100 if mm.group(1) == 'AT_FDCWD' else int(mm.group(1))
                return (fd, unhex(mm.group(2)).decode('utf-8', 'replace'))

            def path_at(dirarg, patharg):
                p = strlit(patharg)
                if p is None:
                    return None
                p = p.decode('utf-8', 'replace')
                if p.startswith('/'):
                    return p
                _, d = fdinfo(dirarg)
                return (d.rstrip('/') + '/' + p) if d else p

            if name in ('openat', 'open', 'creat'):
                if name == 'openat':
                    p = path_at(args[0], args[1])
                    flags = args[2] if len(args) > 2 else ''
                else:
                    p = strlit(args[0]).decode('utf-8', 'replace')
                    flags = args[1] if len(args) > 1 else 'O_CREAT|O_WRONLY|O_TRUNC'
                if p is None:
                    continue
                r = rel(p)
                creating = 'O_CREAT' in flags
                if not ok:
                    if r is not None and creating:
                        events.append({"t": "failed", "call": name, "path": r, "errno": errname})
                    continue
                fd = int(ret)
                pos[(pid, fd)] = 0
                if 'O_APPEND' in flags:
                    pos[(pid, fd)] = None  # resolved by the consumer: append at end
                if r is not None and (creating or 'O_TRUNC' in flags):
                    events.append({"t": "create", "path": r, "trunc": 'O_TRUNC' in flags, "excl": 'O_EXCL' in flags})
            elif name in ('write', 'pwrite64'):
                fd, p = fdinfo(args[0])
                if p is None:
                    continue
                data = strlit(args[1])
                if p == marker_path:
                    if ok and data is not None:
                        events.append({"t": "marker", "text": data.decode('utf-8', 'replace').rstrip('\n')})
                    continue
                r = rel(p)
                if r is None:
                    continue
                if not ok:
                    events.append({"t": "failed", "call": name, "path": r, "errno": errname})
                    continue
                n = int(ret)
                data = (data or b'')[:n]
                if name == 'pwrite64':
                    off = int(args[3])
                else:
                    off = pos.get((pid, fd), 0)
                    if off is not None:
                        pos[(pid, fd)] = off + n
                events.append({"t": "write", "path": r, "off": off, "data": data.hex()})
            elif name == 'lseek':
                fd, p = fdinfo(args[0])
                if ok and fd is not None:
                    pos[(pid, fd)] = int(ret)
            elif name in ('fsync', 'fdatasync'):
                fd, p = fdinfo(args[0])
                if p is None:
                    continue
                r = rel(p)
                if r is None:
                    continue
                if ok:
                    events.append({"t": "fsync", "path": r})
                else:
                    events.append({"t": "failed", "call": name, "path": r, "errno": errname})
            elif name in ('rename', 'renameat', 'renameat2'):
                if name == 'rename':
                    a, b = strlit(args[0]).decode(), strlit(args[1]).decode()
                else:
                    a, b = path_at(args[0], args[1]), path_at(args[2], args[3])
                ra, rb = rel(a), rel(b)
                if ra is None and rb is None:
                    continue
                if ok:
                    events.append({"t": "rename", "from": ra, "to": rb})
                else:
                    events.append({"t": "failed", "call": name, "path": rb, "errno": errname})
            elif name in ('unlink', 'unlinkat'):
                p = strlit(args[0]).decode() if name == 'unlink' else path_at(args[0], args[1])
                r = rel(p) if p else None
                if r is None:
                    continue
                if ok:
                    events.append({"t": "unlink", "path": r})
                else:
                    events.append({"t": "failed", "call": name, "path": r, "errno": errname})
            elif name in ('mkdir', 'mkdirat'):
                p = strlit(args[0]).decode() if name == 'mkdir' else path_at(args[0], args[1])
                r = rel(p) if p else None
                if r is None:
                    continue
                if ok:
                    events.append({"t": "mkdir", "path": r})
                elif errname != 'EEXIST':
                    events.append({"t": "failed", "call": name, "path": r, "errno": errname})
            elif name in ('ftruncate', 'truncate'):
                if name == 'ftruncate':
                    _, p = fdinfo(args[0])
                else:
                    p = strlit(args[0]).decode()
                r = rel(p) if p else None
                if r is not None and ok:
                    events.append({"t": "truncate", "path": r, "len": int(args[1])})
            elif name == 'close':
                fd, _ = fdinfo(args[0])
                pos.pop((pid, fd), None)
    return events


def main():
    trace, root, marker, out = sys.argv[1:5]
    ev = parse(trace, root, marker)
    with open(out, 'w') as f:
        json.dump({"root": root, "events": ev}, f)
    kinds = {}
    for e in ev:
        kinds[e["t"]] = kinds.get(e["t"], 0) + 1
    print(json.dumps(kinds))


if __name__ == '__main__':
    main()
