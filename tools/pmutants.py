#!/usr/bin/env python3
"""Parallel self-validation campaign: like tools/mutants.py, but every mutant is applied to its own scratch worktree of
/repo (under /dev/shm) and checked from an isolated copy of /verif (tools/iso_check.sh), so /repo is never touched and
several mutants run at once.

  tools/pmutants.py run <name>...|all|new [--par 4] [--jobs 8] [--tier quick] [--seed 1] [--also C07,...]

`new` = mutants without a line in mutants/results.jsonl yet. Results are appended to mutants/results.jsonl.
Scratch worktrees and isolated copies are removed at the end.
"""
import json, os, subprocess, sys, time, threading, queue

ROOT = os.path.dirname(os.path.dirname(os.path.abspath(__file__)))
sys.path.insert(0, os.path.join(ROOT, "mutants"))
from catalog import MUTANTS  # noqa: E402
try:
    from catalog_b2 import MUTANTS_B2  # noqa: E402
    MUTANTS = list(MUTANTS) + list(MUTANTS_B2)
except ImportError:
    pass

RES = os.path.join(ROOT, "mutants", "results.jsonl")
LOCK = threading.Lock()


def sh(cmd, **kw):
    return subprocess.run(cmd, shell=True, text=True, stdout=subprocess.PIPE, stderr=subprocess.STDOUT, **kw)


def apply(m, repo):
    for (path, old, new) in m["edits"]:
        p = os.path.join(repo, path)
        s = open(p).read()
        n = s.count(old)
        if n != 1:
            return f"edit site in {path} occurs {n} times"
        open(p, "w").write(s.replace(old, new))
    return None


def worker(slot, q, tier, seed, jobs, also):
    wt = f"/dev/shm/mw-{slot}"
    sh(f"git -C /repo worktree remove --force {wt}; git -C /repo worktree add --detach {wt} HEAD && cp /repo/Cargo.lock {wt}/")
    while True:
        try:
            m = q.get_nowait()
        except queue.Empty:
            break
        sh(f"git -C {wt} checkout -- .")
        res = {"mutant": m["name"], "targets": m["props"], "tier": tier, "seed": seed, "jobs": jobs, "checks": {}}
        err = apply(m, wt)
        if err:
            res["error"] = err
        else:
            for prop in list(m["props"]) + [a for a in also if a not in m["props"]]:
                t = time.time()
                p = sh(f"VERIF_JOBS={jobs} {ROOT}/tools/iso_check.sh m{slot} {wt} {tier} {seed} {prop}")
                lines = [l for l in p.stdout.splitlines() if l.startswith(("VIOLATION", "OK", "INCONCLUSIVE", "KNOWN-FINDING", "  ", "== "))]
                rc = None
                for l in lines:
                    if l.startswith("== ") and "rc=" in l:
                        rc = int(l.rsplit("rc=", 1)[1])
                res["checks"][prop] = {"exit": rc, "wall_s": round(time.time() - t, 1), "lines": [l[:400] for l in lines[:6]]}
        with LOCK:
            with open(RES, "a") as f:
                f.write(json.dumps(res) + "\n")
            verdict = res.get("error") or " ".join(f"{p}:exit={c['exit']}" for p, c in res["checks"].items())
            print(f"{m['name']:40s} {verdict}", flush=True)
            for p, c in res.get("checks", {}).items():
                for l in c["lines"][1:3]:
                    print("      ", l[:200], flush=True)
    sh(f"git -C /repo worktree remove --force {wt}; rm -rf /dev/shm/iso-m{slot}")


def main():
    a = sys.argv[1:]
    if not a or a[0] != "run":
        print(__doc__)
        return
    tier, seed, par, jobs, also = "quick", 1, 4, 8, []
    names = []
    i = 1
    while i < len(a):
        if a[i] == "--tier":
            tier = a[i + 1]; i += 2
        elif a[i] == "--seed":
            seed = int(a[i + 1]); i += 2
        elif a[i] == "--par":
            par = int(a[i + 1]); i += 2
        elif a[i] == "--jobs":
            jobs = int(a[i + 1]); i += 2
        elif a[i] == "--also":
            also = a[i + 1].split(","); i += 2
        else:
            names.append(a[i]); i += 1
    done = set()
    if os.path.exists(RES):
        for l in open(RES):
            try:
                done.add(json.loads(l)["mutant"])
            except Exception:
                pass
    todo = [m for m in MUTANTS if "all" in names or m["name"] in names or ("new" in names and m["name"] not in done)]
    q = queue.Queue()
    for m in todo:
        q.put(m)
    ths = [threading.Thread(target=worker, args=(s, q, tier, seed, jobs, also)) for s in range(min(par, len(todo)))]
    for t in ths:
        t.start()
    for t in ths:
        t.join()


if __name__ == "__main__":
    main()
