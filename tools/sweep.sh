#!/bin/bash
# usage: tools/sweep.sh <tier> <seed...>   — runs every registered check at the given seeds, prints one line per run
TIER=$1; shift
cd "$(dirname "$0")/.."
./check --setup >/dev/null 2>&1
for seed in "$@"; do
  for p in $(python3 -c "import json;print(' '.join(c['property_id'] for c in json.load(open('MANIFEST.json'))['checks']))"); do
    out=$(VERIF_SEED=$seed ./check $p --tier $TIER 2>&1); rc=$?
    echo "seed=$seed $p rc=$rc $(echo "$out" | grep -E '^(OK|VIOLATION|INCONCLUSIVE)' | head -2 | cut -c1-260 | tr '\n' ' ')"
    echo "$out" | grep -E '^  ' | head -3 | cut -c1-700
  done
done
