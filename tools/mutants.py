#!/usr/bin/env python3
"""Self-validation campaign (DESIGN.md section 7): hand-written single-site mutants of /repo, each applied to the
working tree, the registered check of the targeted property run, and /repo restored (git checkout) straight afterwards.

  tools/mutants.py list
  tools/mutants.py run <name>|all [--tier quick] [--seed 1] [--props C01,C02]

Mutants are text substitutions (file, old, new); `old` must occur exactly once. They need not pass the crate's own
test suite - they exist to show that a monitor fires, not to imitate a reviewer-proof change (the independent seeded
changes under seeded/ do that). Results are appended to mutants/results.jsonl.
"""
import json, os, subprocess, sys, time

ROOT = os.path.dirname(os.path.dirname(os.path.abspath(__file__)))
REPO = "/repo"
sys.path.insert(0, os.path.join(ROOT, "mutants"))
from catalog import MUTANTS  # noqa: E402
try:
    from catalog_b2 import MUTANTS_B2  # noqa: E402
    MUTANTS = list(MUTANTS) + list(MUTANTS_B2)
except ImportError:
    pass


def sh(cmd, **kw):
    return subprocess.run(cmd, shell=True, text=True, stdout=subprocess.PIPE, stderr=subprocess.STDOUT, **kw)


def apply(m):
    for (path, old, new) in m["edits"]:
        p = os.path.join(REPO, path)
        s = open(p).read()
        n = s.count(old)
        if n != 1:
            return f"edit site in {path} occurs {n} times"
        open(p, "w").write(s.replace(old, new))
    return None


def restore():
    sh(f"git -C {REPO} checkout -- .")


def run_one(m, tier, seed, props=None):
    if sh(f"git -C {REPO} status --porcelain --untracked-files=no").stdout.strip():
        print("/repo has uncommitted changes; refusing")
        sys.exit(2)
    res = {"mutant": m["name"], "targets": m["props"], "tier": tier, "seed": seed, "checks": {}}
    try:
        err = apply(m)
        if err:
            res["error"] = err
            return res
        for prop in (props or m["props"]):
            t = time.time()
            p = sh(f"cd {ROOT} && VERIF_SEED={seed} ./check {prop} --tier {tier}")
            lines = [l for l in p.stdout.splitlines() if l.startswith(("VIOLATION", "OK", "INCONCLUSIVE", "KNOWN-FINDING", "  "))]
            res["checks"][prop] = {"exit": p.returncode, "wall_s": round(time.time() - t, 1), "lines": [l[:400] for l in lines[:6]]}
    finally:
        restore()
    return res


def main():
    a = sys.argv[1:]
    if not a or a[0] == "list":
        for m in MUTANTS:
            print(f"{m['name']:34s} {','.join(m['props']):12s} {m['what']}")
        return
    tier, seed, props = "quick", 1, None
    names = []
    i = 1
    while i < len(a):
        if a[i] == "--tier":
            tier = a[i + 1]; i += 2
        elif a[i] == "--seed":
            seed = int(a[i + 1]); i += 2
        elif a[i] == "--props":
            props = a[i + 1].split(","); i += 2
        else:
            names.append(a[i]); i += 1
    todo = [m for m in MUTANTS if "all" in names or m["name"] in names]
    os.makedirs(os.path.join(ROOT, "mutants"), exist_ok=True)
    for m in todo:
        r = run_one(m, tier, seed, props)
        with open(os.path.join(ROOT, "mutants", "results.jsonl"), "a") as f:
            f.write(json.dumps(r) + "\n")
        verdict = r.get("error") or " ".join(f"{p}:exit={c['exit']}" for p, c in r["checks"].items())
        print(f"{m['name']:34s} {verdict}")
        for p, c in r.get("checks", {}).items():
            for l in c["lines"][:3]:
                print("      ", l[:240])


if __name__ == "__main__":
    main()
