#!/usr/bin/env python3
"""One shard of the C16 fault check: recording pass (which syscall ordinals lie inside which call
into the crate) + one injected run per (call, syscall class, ordinal[, errno])."""
import random, json, os, re, subprocess, sys, time, shutil

CLASSES = {
    "write": ["ENOSPC", "EIO"],
    "pwrite64": ["ENOSPC"],
    "fsync": ["EIO"],
    "fdatasync": ["EIO"],
    "openat": ["ENOSPC", "EMFILE", "EIO"],
    "renameat": ["EIO"],
    "renameat2": ["EIO"],
    "rename": ["EIO"],
    "unlink": ["EIO"],
    "unlinkat": ["EIO"],
    "mkdir": ["ENOSPC"],
}
READ_CLASSES = {"pread64": ["EIO"], "read": ["EIO"]}
LINE = re.compile(r'^(?:\d+\s+)?(\w+)\((.*)$')


def record(binp, seed, case_no, scratch, known, classes):
    tree, markers, trace, result = (os.path.join(scratch, x) for x in ("tree", "markers", "trace.txt", "result.json"))
    shutil.rmtree(tree, ignore_errors=True)
    shutil.rmtree(tree + ".copy", ignore_errors=True)
    p = subprocess.run(["strace", "-f", "-y", "-o", trace, "-e", "trace=" + ",".join(classes), binp, "faultrun", "--seed", str(seed),
                        "--case", str(case_no), "--dir", tree, "--markers", markers, "--result", result, "--known", known],
                       stdout=subprocess.DEVNULL, stderr=subprocess.PIPE, text=True)
    if p.returncode != 0 or not os.path.exists(result):
        return None, None
    base = json.load(open(result))
    ordinal = {c: 0 for c in classes}
    positions = []
    in_window, cur_op, cur_name = False, None, ""
    for line in open(trace, errors="replace"):
        m = LINE.match(line)
        if not m:
            continue
        name, rest = m.group(1), m.group(2)
        if name not in ordinal:
            continue
        ordinal[name] += 1
        if name == "write" and markers in rest.split(">")[0]:
            mm = re.search(r'"M (\w)(?: (-?\d+))?(?: ([\w-]+))?', rest)
            if mm:
                if mm.group(1) == "B":
                    cur_op, cur_name = int(mm.group(2)), (mm.group(3) or "")
                elif mm.group(1) == "S":
                    in_window = True
                elif mm.group(1) == "R":
                    in_window = False
                elif mm.group(1) == "T":
                    cur_op = None  # the retry of an op is not a target in the recording pass
            continue
        if in_window and cur_op is not None and cur_op >= 0:
            # "commit" positions: syscalls on the version file / the current pointer / its temp file, i.e. inside the
            # step that makes an operation take effect - where memory and disk can come apart
            commit = re.search(r'/(v\d+|current|\.tmp[^/">]*)[">]', rest) is not None
            positions.append((cur_op, cur_name, name, ordinal[name], commit))
    return base, positions


def main():
    a = dict(zip(sys.argv[1::2], sys.argv[2::2]))
    binp, seed, shard = a["--bin"], int(a["--seed"]), int(a["--shard"])
    max_cases, limit, out = int(a["--cases"]), float(a["--time-limit"]), a["--out"]
    scratch, replay_dir, known = a["--scratch"], a["--replay-dir"], a["--known"]
    all_errnos = a.get("--all-errnos", "false") == "true"
    with_reads = a.get("--reads", "false") == "true"
    os.makedirs(scratch, exist_ok=True)
    os.makedirs(replay_dir, exist_ok=True)
    classes = dict(CLASSES)
    if with_reads:
        classes.update(READ_CLASSES)
    t0 = time.time()
    rep = {"engine": "fault", "seed": seed, "shard": shard, "cases": 0, "distinct": [], "nontrivial": [], "counters": {},
           "violations": [], "known_hits": [], "samples": [], "other_hits": []}
    C = rep["counters"]

    def bump(k, n=1):
        C[k] = C.get(k, 0) + n

    known_set = set()
    try:
        for e in json.load(open(known)).get("findings", []):
            if e.get("status") == "known":
                for p in [e["property"]] + e.get("also_properties", []):
                    for s in e.get("signatures", []):
                        known_set.add((p, s))
    except Exception:
        pass
    known_hits, seen = {}, set()
    case = 0
    while case < max_cases and time.time() - t0 < limit:
        case_no = shard * 1000000 + case
        case += 1
        base, positions = record(binp, seed, case_no, scratch, known, list(classes))
        if base is None:
            bump("record_failures")
            continue
        if base.get("violation") or base.get("create_failed"):
            # The fault-free recording pass is not clean. The history lies inside this property's quantifier ("x
            # histories"), and no injected run of it can be judged: report it (a listed known finding stays one).
            bump("histories_not_clean_without_fault")
            v = base.get("violation")
            if v:
                tags = list(v.get("tags") or [])
                kt = next((t for t in tags if (t, v["sig"]) in known_set), None)
                if kt is not None:
                    e = known_hits.setdefault(kt + "|" + v["sig"], {"key": kt + "|" + v["sig"], "count": 0, "example": v["msg"]})
                    e["count"] += 1
                elif v["sig"] not in seen and len(rep["violations"]) < 6:
                    seen.add(v["sig"])
                    path = os.path.join(replay_dir, f"fault-s{seed}-c{case_no}-nofault.json")
                    json.dump({"engine": "fault", "seed": seed, "case": case_no, "class": None, "violation": v, "history": base.get("sample")}, open(path, "w"), indent=1)
                    rep["violations"].append({"tags": sorted(set(tags + ["C16"])), "sig": "fault-free:" + v["sig"], "msg": "[recording pass, no fault injected] " + v["msg"], "replay": path})
            continue
        rep["cases"] += 1
        rep["distinct"].append(base["hash"])
        bump("positions_enumerated", len(positions))
        runs_here = 0
        complete = True
        tree, markers, result = (os.path.join(scratch, x) for x in ("tree", "markers", "result.json"))
        # seeded shuffle: within a time budget every kind of call and every phase of it gets its share of injections
        # (in history order the budget would be spent on the first few flushes)
        random.Random(seed * 1000003 + case_no).shuffle(positions)
        # half of the budget goes to the commit positions (a minority of all positions), interleaved 1:1
        com = [p for p in positions if p[4]]
        oth = [p for p in positions if not p[4]]
        positions = []
        while com or oth:
            if com:
                positions.append(com.pop())
            if oth:
                positions.append(oth.pop())
        bump("commit_positions", sum(1 for p in positions if p[4]))
        for (op, opname, cls, ordn, commit) in positions:
            errnos = classes[cls] if all_errnos else [classes[cls][ordn % len(classes[cls])]]
            for errno in errnos:
                if time.time() - t0 > limit:
                    complete = False
                    break
                shutil.rmtree(tree, ignore_errors=True)
                shutil.rmtree(tree + ".copy", ignore_errors=True)
                if os.path.exists(result):
                    os.remove(result)
                p = subprocess.run(["strace", "-f", "-qq", "--seccomp-bpf", "-o", "/dev/null", "-e", "trace=" + cls,
                                    "-e", f"inject={cls}:error={errno}:when={ordn}",
                                    binp, "faultrun", "--after-failure", ("close" if (ordn + op) % 4 == 3 else "retry"),
                                    "--seed", str(seed), "--case", str(case_no), "--dir", tree,
                                    "--markers", markers, "--result", result, "--known", known],
                                   stdout=subprocess.DEVNULL, stderr=subprocess.PIPE, text=True)
                runs_here += 1
                bump("injected_runs")
                bump(f"inject:{cls}:{errno}")
                bump(f"during:{opname}")
                if commit:
                    bump("injected_at_commit_positions")
                if not os.path.exists(result):
                    # the process died (abort / poisoned lock escalating): the tree did not remain usable
                    r = {"violation": {"tags": ["C16"], "sig": f"fault:process-died:{opname}", "msg": f"faultrun exited with {p.returncode} and no result: {p.stderr[-400:]}"}, "failed_calls": []}
                else:
                    r = json.load(open(result))
                if r.get("closed_after_failure"):
                    bump("runs_closed_and_reopened_after_the_failure")
                if r.get("failed_calls"):
                    bump("runs_where_a_call_returned_err")
                    bump("retries_succeeded" if not r.get("violation") else "retries_or_checks_failed")
                else:
                    bump("runs_where_the_fault_was_absorbed")
                for h in r.get("known_hits", []):
                    e = known_hits.setdefault(h["key"], {"key": h["key"], "count": 0, "example": h["example"]})
                    e["count"] += h["count"]
                v = r.get("violation")
                if v:
                    sig = f"{v['sig']}:{cls}:{errno}"
                    msg = f"[inject {cls}={errno} at call #{ordn} inside op #{op} ({opname}); {'kv-separated' if base.get('kv') else 'standard'} tree] {v['msg']}"
                    if ("C16", v["sig"]) in known_set or ("C16", sig) in known_set:
                        e = known_hits.setdefault("C16|" + v["sig"], {"key": "C16|" + v["sig"], "count": 0, "example": msg})
                        e["count"] += 1
                    elif v["sig"] not in seen and len(rep["violations"]) < 6:
                        seen.add(v["sig"])
                        path = os.path.join(replay_dir, f"fault-s{seed}-c{case_no}-{cls}-{ordn}-{errno}.json")
                        json.dump({"engine": "fault", "seed": seed, "case": case_no, "class": cls, "ordinal": ordn, "errno": errno,
                                   "violation": v, "history": base.get("sample")}, open(path, "w"), indent=1)
                        rep["violations"].append({"tags": v.get("tags") or ["C16"], "sig": v["sig"], "msg": msg, "replay": path})
            if not complete:
                break
        if complete:
            bump("histories_fully_enumerated")
        if runs_here >= 20:
            rep["nontrivial"].append(base["hash"])
            if len(rep["samples"]) < 2:
                s = base.get("sample", {})
                s["injectable_positions"] = len(positions)
                s["injected_runs"] = runs_here
                rep["samples"].append(s)
    rep["known_hits"] = list(known_hits.values())
    rep["wall_s"] = time.time() - t0
    shutil.rmtree(scratch, ignore_errors=True)
    json.dump(rep, open(out, "w"))


if __name__ == "__main__":
    main()
