#!/bin/bash
# usage: seed_cycle.sh <PROP> <worktree> <seed-name> "<needs>"  — verify (if not yet), try quick check, write meta, drop worktree
P=$1; WT=$2; NAME=$3; NEEDS=$4
cd /verif
while pgrep -f "verify_seed.sh $P $WT" >/dev/null; do sleep 5; done
if [ ! -s seeded/$NAME/verify.log ] || ! grep -q "== done" seeded/$NAME/verify.log; then tools/verify_seed.sh $P $WT $NAME; fi
grep -E "Summary|^test result" seeded/$NAME/verify.log
tools/try_seed.sh $NAME $P quick ${SEED:-1}
python3 tools/seed_meta.py $NAME $P "$NEEDS" x
if grep -q "== done" seeded/$NAME/verify.log; then git -C /repo worktree remove --force $WT; fi
