# Single source of truth for MANIFEST.json (see tools/mkmanifest.py).
HOOK_COMMITS = ["2f4866a", "ffed481"]

ENGINES = [
    {"name": "model", "path": "harness/src/engines/model.rs", "serves_properties": ["C01", "C02", "C03", "C04", "C07", "C08", "C09", "C11", "C13", "C14", "C15", "C17", "C18", "C19", "C20"],
     "kind_free_text": "seeded histories executed against real trees; reference MVCC model (harness/src/model.rs) compared after every op through the read battery (harness/src/inst.rs); structural auditors on every installed version via the version_installed hook (harness/src/audit.rs); directory audit; lock-step twins / tuning groups / shared-cache groups / FIFO mode"},
    {"name": "table", "path": "harness/src/engines/table.rs", "serves_properties": ["C12"],
     "kind_free_text": "item streams written through table::Writer and read back through every read path; native + Miri (Stacked Borrows)"},
]

NOTES = ("Runtime monitoring and sanitizers only (DESIGN.md). Every check command rebuilds the harness, and with it lsm-tree "
         "from /repo's working tree with cargo feature `verif`. Exit codes: 0 held on everything explored (KNOWN-FINDING lines for listed "
         "defects), 1 violation (VIOLATION property=<id> replay=<path>), 2 inconclusive (build failure, watchdog, too few non-trivial cases). "
         "Genuine defects found and repaired: see known_findings.json (status fixed) and DESIGN.md section 8.")

_T = "reference-model oracle + structural auditors over seeded histories (runtime monitoring)"

def _c(pid, engine, text, note, technique, ref, level="exploration"):
    return {"id": pid, "engine": engine, "level": level, "text": text, "note": note, "technique": technique, "design_ref": ref}

_NOTE = ("Trusted: the reference model (harness/src/model.rs, ~300 lines) and the usage protocol of DESIGN.md 4.3; histories, configurations "
         "and watermarks are sampled (seeded), universes are small (<= 64 keys); held on the K distinct non-trivial cases reported in the evidence, not more.")

CHECKS = [
    _c("C01", "model", "Point reads (get/contains_key/size_of/get_internal_entry) at the newest snapshot are compared with the model after every op of thousands of seeded histories mixing writes with rotate/flush/leveled/major/move-down/pull-down/reopen over random physical configurations; a resurrected delete or resurfaced overwrite is identified by the unique value it carries.", _NOTE, _T, "5/C01"),
    _c("C02", "model", "Up to 6 snapshots are held across later writes, flushes, compactions with legal watermarks (incl. the tightest), filters, ingestion, drop_range and clear; the full battery runs for every held snapshot after every structural op against the model world of that snapshot, plus the mechanism invariant that a held snapshot keeps resolving to the version it was opened on.", _NOTE, _T, "5/C02"),
    _c("C03", "model", "Forward, reverse and seeded next/next_back interleavings of full, ranged (bounds from keys, table/block boundaries, 0xFF.., inverted/empty) and prefix scans, with and without an overlay memtable, plus len/is_empty/first/last, compared with the model's range query on layouts with memtables, several L0 runs, multi-table runs and multi-block tables.", _NOTE, _T, "5/C03"),
    _c("C04", "model", "Reopen at arbitrary positions (unflushed / sealed memtables, overlapping L0 runs, after moves, clear, drop_range, ingest, abandoned ingest); after each reopen the full dump (value + seqno) must equal the model's persisted state, id counters must be above everything present, the directory must be exact, and the history continues writing/flushing/compacting.", _NOTE, _T, "5/C04"),
    _c("C07", "model", "Every version installed (observed at the version_installed hook) is audited: runs ascending and disjoint, read-order seqno invariant across runs/levels, each table's stored key range / seqno range / counts vs. a full scan (and scan vs. index iterator both directions), files exist, and the v<N> file decodes (own decoder) to the same structure.", _NOTE, "invariant auditor at the version_installed hook over seeded histories (runtime monitoring)", "5/C07"),
    _c("C08", "model", "Lock-step twins: one standard tree and 1-3 KV-separated trees (different thresholds / file sizes / staleness / compression) execute the same history; logical dumps at the newest and at every held snapshot are compared pairwise and each tree with the model; panics such as an unresolvable pointer are violations; dangling pointers are also caught by the version auditor.", _NOTE, "lock-step differential oracle (standard vs KV-separated) + reference model (runtime monitoring)", "5/C08"),
    _c("C09", "model", "At every installed version the garbage map is recounted from first principles (pointers decoded from every table vs. frames parsed from every blob file), stale_blob_bytes() is compared with the recount, dangling references / statistics for unlisted files / unreferenced files that outlive two merge-or-drop version changes are reported, and statistics must survive reopen.", _NOTE, "invariant auditor (recount) at the version_installed hook (runtime monitoring)", "5/C09"),
    _c("C11", "model", "Groups of 3-5 trees with different physical configurations run one history in lock-step and must agree with each other and the model; additionally 2-3 trees with different histories share one Cache and one tiny DescriptorTable (table ids coincide, tree ids differ) and are each compared with their own model.", _NOTE, "lock-step differential oracle across configurations + shared-cache groups (runtime monitoring)", "5/C11"),
    _c("C12", "table", "Sorted multi-version streams (values, tombstones, weak tombstones, pointers; long shared prefixes, prefix-of-each-other keys, 2 KiB keys, entries larger than a block, version slabs spanning blocks) are written with random writer settings and read back through scan, iter, reverse, ranged ping-pong scans and point lookups at (key, s-1/s/s+1/0/MAX); stored metadata must equal the stream's. A share runs under Miri with Stacked Borrows.", "Trusted: the generated stream as oracle; stream size <= 400 entries; Miri covers only the small cases.", "stream-as-oracle differential testing + Miri (runtime monitoring / UB interpreter)", "5/C12"),
    _c("C13", "model", "Keys under the single-delete discipline (enforced by executor guards) go through insert/remove_weak generations with flush/rotate/compaction placed everywhere and watermarks from 0 to the tightest legal one; reads at all snapshots must equal the model in which a weak delete is a delete.", _NOTE, _T, "5/C13"),
    _c("C14", "model", "Bulk ingestions of sorted batches (values + tombstones) interleaved with writes, snapshots, flushes, compactions, reopen and abandoned ingestions; all entries must carry the installing version's seqno, be visible to later and invisible to earlier snapshots, override older and be overridden by newer writes, and survive reopen.", _NOTE, _T, "5/C14"),
    _c("C15", "model", "drop_range with bounds taken from the actual tables' min/max keys +-1 byte in all Included/Excluded/Unbounded combinations (plus empty and inverted ranges, which must change nothing) and clear(), with snapshots before/after: keys outside the range and every earlier snapshot are exact, keys inside are unconstrained (tainted), a cleared tree is empty for later snapshots.", _NOTE, _T, "5/C15"),
    _c("C17", "model", "A logging compaction filter with a seeded verdict function (Keep / Remove / ReplaceValue small+large / RemoveWeak+Destroy on write-once keys) is installed; after each compaction the model world is transformed by exactly the logged events and all reads at new and old snapshots are compared; a tombstone handed to the filter trips the crate's unreachable!().", _NOTE, "filter event log + reference model (runtime monitoring)", "5/C17"),
    _c("C18", "model", "After every op get_highest_persisted_seqno is compared with the maximum seqno found by scanning the tables of the current version, get_highest_memtable_seqno with the model's unflushed entries, get_highest_seqno with their maximum, and the persisted mark before/after reopen.", _NOTE, "invariant monitor over table scans (runtime monitoring)", "5/C18"),
    _c("C19", "model", "Append-only monotonic histories with a virtual clock; for each FIFO compaction the removed/retained tables are compared by creation time, size limit and TTL (no removed table newer than a retained one unless expired, nothing removed within limit and TTL) and every key of a retained table must stay readable, also after reopen.", _NOTE, "before/after table-set oracle with virtual clock (runtime monitoring)", "5/C19"),
    _c("C20", "model", "At every quiescent point the directory listing is compared with the ids named by the retained version history (premature deletes, leaks), and with exactly the current version after every reopen; snapshots are held across compactions and released, watermark schedules range from never-GC to tight.", _NOTE, "directory audit against the retained version history (runtime monitoring)", "5/C20"),
]

_PENDING = {
    "C05": "crash engine (strace log -> persistence model -> crash images) not built yet; planned, DESIGN.md 5/C05",
    "C06": "concurrency engine (sched-hook delay injection, TSan) not built yet; planned, DESIGN.md 5/C06",
    "C10": "corruption engine (byte mutations of every persisted file) not built yet; planned, DESIGN.md 5/C10",
    "C16": "fault engine (strace syscall fault injection) not built yet; planned, DESIGN.md 5/C16",
}
_claimed = {c["id"] for c in CHECKS}
NOT_APPLICABLE = [{"property_id": p, "reason": r} for p, r in sorted(_PENDING.items()) if p not in _claimed]
