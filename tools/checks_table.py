# Single source of truth for MANIFEST.json (see tools/mkmanifest.py).
HOOK_COMMITS = ["2f4866a", "ffed481"]
ENGINES = []
NOTES = "Runtime monitoring and sanitizers only; see DESIGN.md. Work in progress: checks are registered as they are built."
CHECKS = []
_ALL = [f"C{i:02d}" for i in range(1, 21)]
NOT_APPLICABLE = [{"property_id": p, "reason": "check not built yet (planned, see DESIGN.md section 5); not claimed until its monitor exists"} for p in _ALL if p not in {c["id"] for c in CHECKS}]
