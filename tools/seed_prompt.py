#!/usr/bin/env python3
"""Prints the sub-agent prompt for seeding a defect for one property (property text only; nothing from /verif)."""
import json, sys
pid = sys.argv[1]
variant = sys.argv[2] if len(sys.argv) > 2 else ""
wt = sys.argv[3] if len(sys.argv) > 3 else f"/tmp/wt-{pid}"
for line in open("/verif/properties.jsonl"):
    p = json.loads(line)
    if p["id"] == pid:
        break
else:
    sys.exit("no such property")
print(f"""You are producing a *seeded defect* for the Rust crate lsm-tree (fjall-rs/lsm-tree, version 3.1.9), to test whether an independent verification framework can detect it. You know nothing about that framework and must not look for it.

Work ONLY inside the git worktree at {wt} (a full checkout of the crate; `git -C {wt} status` works). Never read or modify /repo or /verif. There is no network: always pass `--offline` to cargo, and always set `CARGO_TARGET_DIR={wt}/target`.

THE PROPERTY the crate is supposed to satisfy ("{p['title']}"):

{p['statement']}

It is quantified over: {p['quantifier']['text']}

YOUR TASK: make a small change to the crate's sources under {wt}/src (ideally 1-10 changed lines, at most ~30) that BREAKS this property while
  (a) the crate still compiles without new warnings-as-errors,
  (b) the ENTIRE existing test suite still passes unchanged (do not edit, add to or delete anything under tests/, benches/, or any #[cfg(test)] code; do not touch Cargo.toml, Cargo.lock, or src/verif.rs and its feature-gated call sites),
  (c) the change is realistic - the kind of slip a maintainer could make and a reviewer could miss: an off-by-one, a wrong comparison operator, a missing or reordered step, a dropped lock / fsync / check / callback, a wrong level or index, a stale value reused, two sites that each look fine alone,
  (d) the defect needs something SPECIFIC to manifest - a particular multi-step sequence of operations, a particular interleaving of threads, a crash or I/O fault at a particular point, an unusual input or configuration, or two cooperating sites - NOT something that ordinary use (insert a few keys, flush, read them back) exposes at once. {variant}

Do not add panics/asserts or obviously artificial code (no `if key == b"magic"`); the change must look like plausible production code.

PROCEDURE
1. Read the relevant code under {wt}/src to find a good place. 
2. Make the change. Build: `cd {wt} && CARGO_TARGET_DIR={wt}/target cargo build --offline`.
3. Run the whole existing suite with the change and confirm all tests pass (432 tests are expected to pass on the unchanged tree):
   `cd {wt} && CARGO_TARGET_DIR={wt}/target cargo nextest run --workspace --no-fail-fast --offline --test-threads 6 2>&1 | tail -15`
   If any existing test fails, pick a different change. (The first build takes a few minutes.)
4. Write a demonstration as a NEW integration test file `{wt}/tests/seed_{pid.lower()}_demo.rs` (this new file is the only thing you may add under tests/) that uses only the crate's public API (see existing files in {wt}/tests for the idioms: `Config::new(folder, SequenceNumberCounter::default(), SequenceNumberCounter::default()).open()?`, `tree.insert(k, v, seqno)`, `tree.flush_active_memtable(0)`, `tree.major_compact(...)`, `tree.compact(Arc::new(Leveled::default()), watermark)`, `tree.get(k, SeqNo::MAX)`, etc.). The demo must FAIL with your change and PASS on the unchanged sources. Verify both: run it with the change; then save and revert your change with `git -C {wt} diff -- src > {wt}/_my.diff && git -C {wt} checkout -- src`, run the demo again (must pass), then re-apply with `git -C {wt} apply {wt}/_my.diff`. NEVER use `git stash` (the stash is shared with other worktrees of this repository and other people work in those).
   `cd {wt} && CARGO_TARGET_DIR={wt}/target cargo test --offline --test seed_{pid.lower()}_demo`
5. Deliver, in a new directory `{wt}/_seed/`:
   - `patch.diff`  = output of `git -C {wt} diff -- src` (source change only, applies with `git apply` at the repo root),
   - `demo.rs`     = a copy of your demonstration test file,
   - `NOTES.md`    = what you changed and where; why it breaks the property; exactly what is needed for it to manifest (sequence / interleaving / fault / input); the commands you ran and their results (suite: N passed with the change; demo: fails with, passes without).
6. Leave the worktree with your change applied and the demo file present.

Finish by replying with a short summary: the changed file(s) and line(s), the trigger condition, and the test results. If after a serious effort you cannot find a change that satisfies (a)-(d), say so and explain what you tried.""")
