#!/bin/bash
# Runs registered checks from an ISOLATED copy of /verif against an arbitrary lsm-tree checkout (a scratch worktree carrying
# a seeded change or a mutant), so that several candidates can be tried in parallel without ever touching /repo.
# Campaign aid only: evidence and verdicts that are committed always come from /verif run against /repo itself.
#   usage: iso_check.sh <slot> <repo-dir> <tier> <seed> <PROP> [PROP...]      env: VERIF_JOBS (default 16)
# The slot directory /dev/shm/iso-<slot> keeps its cargo target dir between calls (only lsm-tree + harness rebuild).
SLOT=$1; REPO=$2; TIER=$3; SEED=$4; shift 4
ISO=/dev/shm/iso-$SLOT
mkdir -p $ISO
rsync -a --delete --exclude 'target*' --exclude .git --exclude replays --exclude scratch --exclude evidence /verif/ $ISO/
mkdir -p $ISO/evidence
sed -i "s#path = \"/repo\"#path = \"$REPO\"#" $ISO/harness/Cargo.toml
cd $ISO || exit 2
for P in "$@"; do
  out=$(VERIF_SEED=$SEED ./check $P --tier $TIER 2>&1); rc=$?
  echo "== $P tier=$TIER seed=$SEED rc=$rc"
  echo "$out" | grep -E '^(OK|VIOLATION|INCONCLUSIVE|KNOWN-FINDING|  )' | head -8 | cut -c1-400
done
