#!/bin/bash
# Runs a registered check against a seeded defect: applies the patch to /repo, runs the check,
# and always restores /repo afterwards. usage: try_seed.sh <seed-dir-name> <property> [tier] [seed]
NAME=$1; PROP=$2; TIER=${3:-quick}; SEED=${4:-1}
D=/verif/seeded/$NAME
cd /repo || exit 2
if ! git diff --quiet; then echo "/repo has uncommitted changes; refusing"; exit 2; fi
git apply $D/patch.diff || { echo "patch does not apply"; exit 2; }
trap 'git -C /repo checkout -- . ' EXIT
cd /verif
VERIF_SEED=$SEED ./check $PROP --tier $TIER > $D/check_$PROP.$TIER.out 2>&1
rc=$?
echo "exit=$rc" >> $D/check_$PROP.$TIER.out
grep -E "^(VIOLATION|KNOWN-FINDING|OK|INCONCLUSIVE)|exit=" $D/check_$PROP.$TIER.out | cut -c1-300
