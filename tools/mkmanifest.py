#!/usr/bin/env python3
"""Regenerates /verif/MANIFEST.json from tools/checks_table.py (single source of truth)."""
import json, os, sys
sys.path.insert(0, os.path.dirname(__file__))
from checks_table import CHECKS, NOT_APPLICABLE, HOOK_COMMITS, ENGINES, NOTES

def main():
    checks = []
    for c in CHECKS:
        pid = c["id"]
        checks.append({
            "property_id": pid,
            "quick_cmd": f"./check {pid} --tier quick",
            "thorough_cmd": f"./check {pid} --tier thorough",
            "evidence_file": f"evidence/{pid}.json",
            "replay_cmd_template": f"./check {pid} --replay {{path}}",
            "engine": c["engine"],
            "level_claimed": {"category": c["level"], "text": c["text"], "design_ref": c["design_ref"]},
            "level_note": c["note"],
            "technique": c["technique"],
        })
    m = {
        "version": 1,
        "setup_cmd": "./check --setup",
        "hooks": {
            "guard": "cargo feature `verif` of lsm-tree (off by default)",
            "enable": "the harness crate /verif/harness depends on /repo by path with features=[\"verif\",\"lz4\"]; every check runs `cargo build` of the harness first, so /repo's working tree is rebuilt",
            "baseline_off_cmd": "cd /repo && cargo nextest run --workspace --no-fail-fast --tool-config-file pb:/w/lib/nextest.toml --profile pb --test-threads 8 --offline",
            "source_commits": HOOK_COMMITS,
            "add_only": True,
        },
        "engines": ENGINES,
        "checks": checks,
        "notes": NOTES,
        "not_applicable": NOT_APPLICABLE,
    }
    with open(os.path.join(os.path.dirname(__file__), "..", "MANIFEST.json"), "w") as f:
        json.dump(m, f, indent=1)
        f.write("\n")

if __name__ == "__main__":
    main()
