#!/bin/bash
# Re-verifies a seeded defect delivered by a sub-agent in its scratch worktree:
#   suite passes with the change, demo fails with it and passes without it.
# usage: verify_seed.sh <ID> [worktree] [seed-name]
ID=$1; WT=${2:-/tmp/wt-$ID}; NAME=${3:-$ID}
low=$(echo $ID | tr 'A-Z' 'a-z')
OUT=/verif/seeded/$NAME; mkdir -p $OUT
cd $WT || exit 2
export CARGO_TARGET_DIR=$WT/target CARGO_NET_OFFLINE=true
demo=$(ls tests/seed_${low}*demo*.rs | head -1); demo_name=$(basename $demo .rs)
{
echo "== worktree diff vs delivered patch"; git diff -- src | diff - _seed/patch.diff && echo "patch.diff == working tree diff"
echo "== files touched"; git diff --stat -- src
echo "== suite WITH the change (demo excluded)"
cargo nextest run --workspace --no-fail-fast --offline --test-threads 8 -E "not binary($demo_name)" 2>&1 | grep -E "Summary|FAIL|TIMEOUT" | sort | uniq | head -20
echo "== demo WITH the change (expected: FAILED)"
cargo test --offline --test $demo_name 2>&1 | grep -E "^test |test result" | head -10
git apply -R _seed/patch.diff || { echo "cannot reverse patch"; exit 2; }
echo "== demo WITHOUT the change (expected: ok)"
cargo test --offline --test $demo_name 2>&1 | grep -E "^test |test result" | head -10
git apply _seed/patch.diff
echo "== done; worktree diff restored:"; git diff --stat -- src | tail -1
} > $OUT/verify.log 2>&1
cp _seed/patch.diff $OUT/patch.diff; cp $demo $OUT/demo.rs; cp _seed/NOTES.md $OUT/NOTES.md
