#!/bin/bash
# usage: seed_cycle2.sh <PROP> <worktree> <seed-name> "<needs>" [extra props...]
# verify the delivery in its worktree, run the registered quick check(s) against the worktree from an isolated copy of
# /verif (tools/iso_check.sh; /repo is not touched), write meta.json. The worktree is left in place (remove it by hand
# once the seed is settled: git -C /repo worktree remove --force <worktree>).
P=$1; WT=$2; NAME=$3; NEEDS=$4; shift 4
cd /verif
if [ ! -s seeded/$NAME/verify.log ] || ! grep -q "== done" seeded/$NAME/verify.log; then tools/verify_seed.sh $P $WT $NAME; fi
grep -E "Summary|^test result" seeded/$NAME/verify.log
for Q in $P "$@"; do
  tools/iso_check.sh s-$NAME $WT quick ${SEED:-1} $Q > seeded/$NAME/check_$Q.quick.out 2>&1
  grep -E "rc=" seeded/$NAME/check_$Q.quick.out | sed 's/.*rc=/exit=/' >> seeded/$NAME/check_$Q.quick.out
  grep -E "^(VIOLATION|KNOWN-FINDING|OK|INCONCLUSIVE|  )|^exit=" seeded/$NAME/check_$Q.quick.out | cut -c1-300 | head -8
done
python3 tools/seed_meta.py $NAME $P "$NEEDS" x
rm -rf /dev/shm/iso-s-$NAME
