#!/usr/bin/env python3
"""One shard of the C05 crash check: record histories under strace, turn the log into crash
images (harness `crashcheck`) and merge the per-history reports into one shard report."""
import json, os, subprocess, sys, time, shutil

sys.path.insert(0, os.path.dirname(__file__))
import fslog

TRACE = "openat,open,creat,mkdir,mkdirat,write,pwrite64,lseek,fsync,fdatasync,rename,renameat,renameat2,link,linkat,unlink,unlinkat,ftruncate,truncate,close"


def main():
    a = dict(zip(sys.argv[1::2], sys.argv[2::2]))
    binp, seed, shard = a["--bin"], int(a["--seed"]), int(a["--shard"])
    max_cases, limit, out = int(a["--cases"]), float(a["--time-limit"]), a["--out"]
    scratch, replay_dir, known, k = a["--scratch"], a["--replay-dir"], a["--known"], a.get("--k", "2")
    os.makedirs(scratch, exist_ok=True)
    t0 = time.time()
    rep = {"engine": "crash", "seed": seed, "shard": shard, "cases": 0, "distinct": [], "nontrivial": [], "counters": {},
           "violations": [], "known_hits": [], "samples": [], "other_hits": []}
    known_hits = {}
    seen = set()
    case = 0
    while case < max_cases and time.time() - t0 < limit:
        case_no = shard * 1000000 + case
        case += 1
        tree, markers, trace, events = (os.path.join(scratch, x) for x in ("tree", "markers", "trace.txt", "events.json"))
        shutil.rmtree(tree, ignore_errors=True)
        for f in (markers, trace, events):
            if os.path.exists(f):
                os.remove(f)
        p = subprocess.run(["strace", "-f", "-y", "-xx", "-s", "100000000", "-o", trace, "-e", "trace=" + TRACE,
                            binp, "crashrun", "--seed", str(seed), "--case", str(case_no), "--dir", tree, "--markers", markers, "--known", known],
                           stdout=subprocess.DEVNULL, stderr=subprocess.PIPE, text=True)
        if p.returncode != 0:
            rep["counters"]["crashrun_failures"] = rep["counters"].get("crashrun_failures", 0) + 1
            continue
        ev = fslog.parse(trace, tree, markers)
        json.dump({"root": tree, "events": ev}, open(events, "w"))
        left = max(5, int(limit - (time.time() - t0)) + 20)
        r_out = os.path.join(scratch, "report.json")
        p = subprocess.run([binp, "crashcheck", "--events", events, "--seed", str(seed), "--case", str(case_no), "--k", k,
                            "--out", r_out, "--scratch", os.path.join(scratch, "cc"), "--replay-dir", replay_dir, "--known", known,
                            "--time-limit", str(left)], stdout=subprocess.DEVNULL, stderr=subprocess.PIPE, text=True)
        if p.returncode != 0 or not os.path.exists(r_out):
            rep["counters"]["crashcheck_failures"] = rep["counters"].get("crashcheck_failures", 0) + 1
            continue
        r = json.load(open(r_out))
        os.remove(r_out)
        rep["cases"] += 1
        rep["distinct"].append(r["hash"])
        c = r["counters"]
        if c.get("images_checked", 0) >= 50 and c.get("mutation_prefixes", 0) >= 30:
            rep["nontrivial"].append(r["hash"])
            if len(rep["samples"]) < 2:
                s = r["sample"]
                s["mutation_prefixes"] = c.get("mutation_prefixes", 0)
                s["images_checked"] = c.get("images_checked", 0)
                rep["samples"].append(s)
        for k_, v in c.items():
            rep["counters"][k_] = rep["counters"].get(k_, 0) + v
        if r.get("aborted"):
            rep["counters"]["histories_aborted_by_other_monitor"] = rep["counters"].get("histories_aborted_by_other_monitor", 0) + 1
        if r.get("truncated_by_time_limit"):
            rep["counters"]["histories_truncated_by_time_limit"] = rep["counters"].get("histories_truncated_by_time_limit", 0) + 1
        for v in r["violations"]:
            if v["sig"] not in seen and len(rep["violations"]) < 6:
                seen.add(v["sig"])
                rep["violations"].append(v)
        for h in r["known_hits"]:
            e = known_hits.setdefault(h["key"], {"key": h["key"], "count": 0, "example": h["example"]})
            e["count"] += h["count"]
    rep["known_hits"] = list(known_hits.values())
    rep["wall_s"] = time.time() - t0
    shutil.rmtree(scratch, ignore_errors=True)
    json.dump(rep, open(out, "w"))


if __name__ == "__main__":
    main()
