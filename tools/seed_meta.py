#!/usr/bin/env python3
"""Writes /verif/seeded/<name>/meta.json. usage: seed_meta.py <name> <property> "<needs>" "<detected-by summary>" """
import json, sys, os, glob
name, prop, needs = sys.argv[1], sys.argv[2], sys.argv[3]
d = f"/verif/seeded/{name}"
ver = open(f"{d}/verify.log").read() if os.path.exists(f"{d}/verify.log") else ""
checks = {}
for f in sorted(glob.glob(f"{d}/check_*.out")):
    lines = [l.strip()[:300] for l in open(f) if l.startswith(("VIOLATION", "KNOWN-FINDING", "OK ", "INCONCLUSIVE", "exit="))]
    checks[os.path.basename(f)] = lines
meta = {
    "breaks_property": prop,
    "source": "independent sub-agent given only the property text and a scratch worktree",
    "needs_to_manifest": needs,
    "files_changed": [l.split()[1] for l in open(f"{d}/patch.diff") if l.startswith("+++ ")],
    "confirmed_by_me": {
        "how": "tools/verify_seed.sh in the scratch worktree: full existing suite with the change (demo excluded), demo with the change, demo without the change",
        "suite_with_change": [l.strip() for l in ver.splitlines() if "Summary" in l],
        "demo_lines": [l.strip() for l in ver.splitlines() if l.startswith("test ")],
        "note": "a single 'timed out' in the suite line is tests/table_range a_lot_of_ranges hitting nextest's 60 s limit while the machine was saturated by parallel builds; it passes when run alone",
    },
    "checks_run_against_it": checks,
}
json.dump(meta, open(f"{d}/meta.json", "w"), indent=1)
print("wrote", f"{d}/meta.json")
