#!/bin/bash
# usage: tools/hunt.sh <property> <tier> <seed-from> <seed-to>  — repeats one check over many seeds, prints alarms
cd "$(dirname "$0")/.."
./check --setup >/dev/null 2>&1
for seed in $(seq $3 $4); do
  out=$(VERIF_SEED=$seed ./check $1 --tier $2 2>&1); rc=$?
  echo "seed=$seed $1 rc=$rc $(echo "$out" | grep -E '^(OK|INCONCLUSIVE)' | head -1 | cut -c1-200)"
  if [ $rc != 0 ]; then echo "$out" | grep -A3 -E '^VIOLATION' | cut -c1-4000; fi
done
