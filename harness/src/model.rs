//! Reference model: an MVCC ordered map with "worlds" (DESIGN.md §4.4).
//!
//! The model is the executable specification every observable result of the real tree is
//! compared with. It knows nothing about tables, levels or garbage collection: by the documented
//! usage protocol no live snapshot can observe what a GC watermark allows to be dropped.

use std::collections::BTreeMap;
use std::ops::Bound;

pub type Key = Vec<u8>;
pub type Val = Vec<u8>;

#[derive(Clone, PartialEq, Eq, Debug)]
pub enum Kind {
    Put(Val),
    Del,
    WeakDel,
}

/// Durability class of an entry (the real protocol: active memtable → sealed → table file).
#[derive(Clone, Copy, PartialEq, Eq, Debug)]
pub enum Loc {
    Active,
    Sealed,
    Persisted,
}

#[derive(Clone, Debug)]
pub struct Entry {
    pub seqno: u64,
    pub kind: Kind,
    pub loc: Loc,
}

#[derive(Clone, Debug, Default)]
pub struct World {
    /// `true` for the first world (visible to every snapshot).
    pub base: bool,
    /// Seqno of the version whose installation created this world; snapshots `S > boundary` see it.
    pub boundary: u64,
    /// Entries per key, ascending seqno.
    pub map: BTreeMap<Key, Vec<Entry>>,
    /// Keys whose content below the given seqno is unspecified (inside a dropped range).
    pub taint: BTreeMap<Key, u64>,
}

#[derive(Clone, PartialEq, Eq, Debug)]
pub enum Expect {
    /// Exactly this (seqno, value), or absent.
    Exact(Option<(u64, Val)>),
    /// The property constrains nothing for this key at this snapshot.
    Unknown,
}

impl World {
    pub fn read(&self, key: &[u8], snap: u64) -> Expect {
        let newest = self
            .map
            .get(key)
            .and_then(|es| es.iter().rev().find(|e| e.seqno < snap));

        if let Some(&t) = self.taint.get(key) {
            // Anything at or below the taint boundary may have been dropped (or not).
            if newest.is_none_or(|e| e.seqno < t) {
                return Expect::Unknown;
            }
        }

        Expect::Exact(newest.and_then(|e| match &e.kind {
            Kind::Put(v) => Some((e.seqno, v.clone())),
            Kind::Del | Kind::WeakDel => None,
        }))
    }

    /// Live pairs inside the bounds (ascending) and the keys inside the bounds whose state is unknown.
    pub fn scan(
        &self,
        snap: u64,
        lo: &Bound<Key>,
        hi: &Bound<Key>,
    ) -> (Vec<(Key, Val)>, Vec<Key>) {
        let mut live = vec![];
        let mut unknown = vec![];

        let mut keys: Vec<&Key> = self.map.keys().collect();
        for k in self.taint.keys() {
            if !self.map.contains_key(k) {
                keys.push(k);
            }
        }
        keys.sort();

        for k in keys {
            if !in_bounds(k, lo, hi) {
                continue;
            }
            match self.read(k, snap) {
                Expect::Exact(Some((_, v))) => live.push((k.clone(), v)),
                Expect::Exact(None) => {}
                Expect::Unknown => unknown.push(k.clone()),
            }
        }

        (live, unknown)
    }
}

pub fn in_bounds(k: &[u8], lo: &Bound<Key>, hi: &Bound<Key>) -> bool {
    let lo_ok = match lo {
        Bound::Unbounded => true,
        Bound::Included(b) => k >= b.as_slice(),
        Bound::Excluded(b) => k > b.as_slice(),
    };
    let hi_ok = match hi {
        Bound::Unbounded => true,
        Bound::Included(b) => k <= b.as_slice(),
        Bound::Excluded(b) => k < b.as_slice(),
    };
    lo_ok && hi_ok
}

#[derive(Clone, Debug)]
pub struct Model {
    pub worlds: Vec<World>,
}

impl Default for Model {
    fn default() -> Self {
        Self::new()
    }
}

impl Model {
    pub fn new() -> Self {
        Self {
            worlds: vec![World {
                base: true,
                ..World::default()
            }],
        }
    }

    pub fn newest(&self) -> &World {
        self.worlds.last().expect("at least one world")
    }

    pub fn newest_mut(&mut self) -> &mut World {
        self.worlds.last_mut().expect("at least one world")
    }

    /// World a snapshot `snap` observes.
    pub fn world_for(&self, snap: u64) -> &World {
        self.worlds
            .iter()
            .rev()
            .find(|w| w.base || w.boundary < snap)
            .expect("base world matches everything")
    }

    pub fn read(&self, key: &[u8], snap: u64) -> Expect {
        self.world_for(snap).read(key, snap)
    }

    pub fn write(&mut self, key: &[u8], seqno: u64, kind: Kind, loc: Loc) {
        self.newest_mut()
            .map
            .entry(key.to_vec())
            .or_default()
            .push(Entry { seqno, kind, loc });
    }

    pub fn rotate(&mut self) {
        for es in self.newest_mut().map.values_mut() {
            for e in es.iter_mut() {
                if e.loc == Loc::Active {
                    e.loc = Loc::Sealed;
                }
            }
        }
    }

    pub fn flushed(&mut self) {
        for es in self.newest_mut().map.values_mut() {
            for e in es.iter_mut() {
                if e.loc == Loc::Sealed {
                    e.loc = Loc::Persisted;
                }
            }
        }
    }

    /// Clones the newest world and pushes the copy with the given boundary.
    pub fn fork(&mut self, boundary: u64) -> &mut World {
        let mut w = self.newest().clone();
        w.base = false;
        w.boundary = boundary;
        self.worlds.push(w);
        self.newest_mut()
    }

    /// `clear()`: later snapshots see an empty tree.
    pub fn clear(&mut self, boundary: u64) {
        let w = self.fork(boundary);
        w.map.clear();
        w.taint.clear();
    }

    /// `drop_range`: keys inside become unspecified for later snapshots (until rewritten).
    pub fn drop_range(&mut self, boundary: u64, lo: &Bound<Key>, hi: &Bound<Key>, universe: &[Key]) {
        let w = self.fork(boundary);
        for k in universe {
            if in_bounds(k, lo, hi) {
                w.taint.insert(k.clone(), boundary);
            }
        }
    }

    /// Drops exactly the given keys for later snapshots (FIFO table drops on append-only trees).
    pub fn drop_keys(&mut self, boundary: u64, keys: &[Key]) {
        let w = self.fork(boundary);
        for k in keys {
            w.map.remove(k);
        }
    }

    /// Reopen without WAL: only persisted entries survive; all snapshots are gone.
    pub fn reopen(&mut self) {
        let mut w = self.newest().clone();
        w.base = true;
        w.boundary = 0;
        for es in w.map.values_mut() {
            es.retain(|e| e.loc == Loc::Persisted);
        }
        w.map.retain(|_, es| !es.is_empty());
        self.worlds = vec![w];
    }

    /// Excludes a key from all further assertions (after a recorded known finding on it).
    pub fn poison(&mut self, key: &[u8]) {
        for w in &mut self.worlds {
            w.taint.insert(key.to_vec(), u64::MAX);
        }
    }

    /// Drops worlds no live snapshot can observe any more (keeps memory bounded).
    pub fn prune(&mut self, min_live_snapshot: Option<u64>) {
        // The world used by the oldest live snapshot and everything newer must stay.
        let keep_from = match min_live_snapshot {
            None => self.worlds.len() - 1,
            Some(s) => self
                .worlds
                .iter()
                .rposition(|w| w.base || w.boundary < s)
                .unwrap_or(0),
        };
        if keep_from > 0 {
            self.worlds.drain(0..keep_from);
            if let Some(first) = self.worlds.first_mut() {
                first.base = true;
            }
        }
    }

    pub fn highest_memtable_seqno(&self) -> Option<u64> {
        self.newest()
            .map
            .values()
            .flat_map(|es| es.iter())
            .filter(|e| e.loc != Loc::Persisted)
            .map(|e| e.seqno)
            .max()
    }
}
