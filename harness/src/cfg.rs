//! Random tree configurations (DESIGN.md §4.5) and their translation to `lsm_tree::Config`.

use crate::json::J;
use crate::rng::Rng;
use lsm_tree::config::{
    BlockSizePolicy, BloomConstructionPolicy, CompressionPolicy, FilterPolicy, FilterPolicyEntry,
    HashRatioPolicy, PinningPolicy, RestartIntervalPolicy,
};
use lsm_tree::{
    Cache, CompressionType, Config, DescriptorTable, KvSeparationOptions, SequenceNumberCounter,
};
use std::path::Path;
use std::sync::Arc;

#[derive(Clone, Debug, PartialEq)]
pub struct KvCfg {
    pub threshold: u32,
    pub file_target: u64,
    pub staleness: f32,
    pub age_cutoff: f32,
    pub lz4: bool,
}

#[derive(Clone, Debug, PartialEq)]
pub struct TreeCfg {
    pub block_size: Vec<u32>,
    pub restart: Vec<u8>,
    pub hash_ratio: Vec<f32>,
    pub index_part: Vec<bool>,
    pub filter_part: Vec<bool>,
    pub pin_index: Vec<bool>,
    pub pin_filter: Vec<bool>,
    /// 0 = none, 1 = 1 bpk, 2 = 10 bpk, 3 = fpr 0.01, 4 = fpr 0.0001
    pub filter: Vec<u8>,
    pub expect_hits: bool,
    pub data_lz4: Vec<bool>,
    pub index_lz4: Vec<bool>,
    pub cache_bytes: u64,
    /// None = no descriptor table
    pub fd_table: Option<usize>,
    pub kv: Option<KvCfg>,
}

fn per_level<T: Clone>(rng: &mut Rng, choices: &[T]) -> Vec<T> {
    match rng.below(3) {
        0 => vec![rng.pick(choices).clone()],
        1 => vec![rng.pick(choices).clone(), rng.pick(choices).clone()],
        _ => (0..rng.range(3, 7)).map(|_| rng.pick(choices).clone()).collect(),
    }
}

impl TreeCfg {
    pub fn default_small() -> Self {
        Self {
            block_size: vec![256],
            restart: vec![4],
            hash_ratio: vec![0.0],
            index_part: vec![false],
            filter_part: vec![false],
            pin_index: vec![true],
            pin_filter: vec![true],
            filter: vec![2],
            expect_hits: false,
            data_lz4: vec![false],
            index_lz4: vec![false],
            cache_bytes: 1 << 20,
            fd_table: Some(64),
            kv: None,
        }
    }

    pub fn random(rng: &mut Rng, blob: Option<bool>) -> Self {
        let blob = blob.unwrap_or_else(|| rng.chance(1, 3));
        Self {
            block_size: per_level(rng, &[64, 64, 256, 1024, 4096]),
            restart: per_level(rng, &[1, 2, 3, 16, 32]),
            hash_ratio: per_level(rng, &[0.0, 0.0, 0.75, 8.0]),
            index_part: per_level(rng, &[false, true]),
            filter_part: per_level(rng, &[false, true]),
            pin_index: per_level(rng, &[false, true]),
            pin_filter: per_level(rng, &[false, true]),
            filter: per_level(rng, &[0, 1, 2, 2, 3, 4]),
            expect_hits: rng.chance(1, 5),
            data_lz4: per_level(rng, &[false, true]),
            index_lz4: per_level(rng, &[false, false, true]),
            cache_bytes: *rng.pick(&[0, 0, 4096, 16 << 20]),
            fd_table: *rng.pick(&[None, Some(1), Some(2), Some(256)]),
            kv: if blob { Some(KvCfg::random(rng)) } else { None },
        }
    }

    pub fn thresholds(&self) -> Vec<u32> {
        let mut t: Vec<u32> = self.block_size.clone();
        if let Some(kv) = &self.kv {
            t.push(kv.threshold);
        }
        t
    }

    pub fn build(
        &self,
        path: &Path,
        seqno: SequenceNumberCounter,
        visible: SequenceNumberCounter,
        shared: Option<(Arc<Cache>, Option<Arc<DescriptorTable>>)>,
    ) -> Config {
        let lz = |b: &bool| if *b { CompressionType::Lz4 } else { CompressionType::None };
        let (cache, fdt) = match shared {
            Some((c, d)) => (c, d),
            None => (
                Arc::new(Cache::with_capacity_bytes(self.cache_bytes)),
                self.fd_table.map(|n| Arc::new(DescriptorTable::new(n))),
            ),
        };

        let mut cfg = Config::new(path, seqno, visible)
            .use_cache(cache)
            .use_descriptor_table(fdt)
            .data_block_size_policy(BlockSizePolicy::new(self.block_size.clone()))
            .data_block_restart_interval_policy(RestartIntervalPolicy::new(self.restart.clone()))
            .data_block_hash_ratio_policy(HashRatioPolicy::new(self.hash_ratio.clone()))
            .index_block_partitioning_policy(PinningPolicy::new(self.index_part.clone()))
            .filter_block_partitioning_policy(PinningPolicy::new(self.filter_part.clone()))
            .index_block_pinning_policy(PinningPolicy::new(self.pin_index.clone()))
            .filter_block_pinning_policy(PinningPolicy::new(self.pin_filter.clone()))
            .filter_policy(FilterPolicy::new(
                self.filter
                    .iter()
                    .map(|f| match f {
                        0 => FilterPolicyEntry::None,
                        1 => FilterPolicyEntry::Bloom(BloomConstructionPolicy::BitsPerKey(1.0)),
                        2 => FilterPolicyEntry::Bloom(BloomConstructionPolicy::BitsPerKey(10.0)),
                        3 => FilterPolicyEntry::Bloom(BloomConstructionPolicy::FalsePositiveRate(0.01)),
                        _ => FilterPolicyEntry::Bloom(BloomConstructionPolicy::FalsePositiveRate(0.0001)),
                    })
                    .collect::<Vec<_>>(),
            ))
            .expect_point_read_hits(self.expect_hits)
            .data_block_compression_policy(CompressionPolicy::new(
                self.data_lz4.iter().map(lz).collect::<Vec<_>>(),
            ))
            .index_block_compression_policy(CompressionPolicy::new(
                self.index_lz4.iter().map(lz).collect::<Vec<_>>(),
            ));

        if let Some(kv) = &self.kv {
            cfg = cfg.with_kv_separation(Some(
                KvSeparationOptions::default()
                    .separation_threshold(kv.threshold)
                    .file_target_size(kv.file_target)
                    .staleness_threshold(kv.staleness)
                    .age_cutoff(kv.age_cutoff)
                    .compression(if kv.lz4 { CompressionType::Lz4 } else { CompressionType::None }),
            ));
        }

        cfg
    }

    pub fn describe(&self) -> J {
        let mut o = J::obj();
        let ints = |v: &[u32]| J::Arr(v.iter().map(|x| J::i(*x)).collect());
        let bools = |v: &[bool]| J::Arr(v.iter().map(|x| J::Bool(*x)).collect());
        o.set("block_size", ints(&self.block_size));
        o.set("restart", J::Arr(self.restart.iter().map(|x| J::i(*x)).collect()));
        o.set("hash_ratio", J::Arr(self.hash_ratio.iter().map(|x| J::Num(f64::from(*x))).collect()));
        o.set("index_part", bools(&self.index_part));
        o.set("filter_part", bools(&self.filter_part));
        o.set("pin_index", bools(&self.pin_index));
        o.set("pin_filter", bools(&self.pin_filter));
        o.set("filter", J::Arr(self.filter.iter().map(|x| J::i(*x)).collect()));
        o.set("expect_hits", J::Bool(self.expect_hits));
        o.set("data_lz4", bools(&self.data_lz4));
        o.set("index_lz4", bools(&self.index_lz4));
        o.set("cache_bytes", J::i(self.cache_bytes));
        o.set("fd_table", self.fd_table.map_or(J::Null, J::i));
        if let Some(kv) = &self.kv {
            let mut k = J::obj();
            k.set("threshold", J::i(kv.threshold));
            k.set("file_target", J::i(kv.file_target));
            k.set("staleness", J::Num(f64::from(kv.staleness)));
            k.set("age_cutoff", J::Num(f64::from(kv.age_cutoff)));
            k.set("lz4", J::Bool(kv.lz4));
            o.set("kv", k);
        }
        o
    }

    /// Short signature of the discrete dimensions (for pairwise-coverage accounting).
    pub fn dims(&self) -> Vec<(String, String)> {
        vec![
            ("block".into(), format!("{}", self.block_size[0])),
            ("restart".into(), format!("{}", self.restart[0])),
            ("hash".into(), format!("{}", self.hash_ratio[0])),
            ("ipart".into(), format!("{}", self.index_part[0])),
            ("fpart".into(), format!("{}", self.filter_part[0])),
            ("ipin".into(), format!("{}", self.pin_index[0])),
            ("fpin".into(), format!("{}", self.pin_filter[0])),
            ("filter".into(), format!("{}", self.filter[0])),
            ("hits".into(), format!("{}", self.expect_hits)),
            ("lz4".into(), format!("{}", self.data_lz4[0])),
            ("cache".into(), format!("{}", self.cache_bytes)),
            ("fd".into(), format!("{:?}", self.fd_table)),
            ("kv".into(), format!("{}", self.kv.is_some())),
        ]
    }
}

impl KvCfg {
    pub fn random(rng: &mut Rng) -> Self {
        Self {
            threshold: *rng.pick(&[1, 8, 16, 64, 1024]),
            file_target: *rng.pick(&[1, 128, 4096, 64 << 20]),
            staleness: *rng.pick(&[0.01, 0.01, 0.25, 0.9]),
            age_cutoff: *rng.pick(&[0.25, 1.0, 1.0]),
            lz4: rng.chance(1, 2),
        }
    }
}
