//! Minimal JSON value + writer + reader (enough for shard reports and replay files).

use std::collections::BTreeMap;
use std::fmt::Write as _;

#[derive(Clone, Debug, PartialEq)]
pub enum J {
    Null,
    Bool(bool),
    Int(i64),
    Num(f64),
    Str(String),
    Arr(Vec<J>),
    Obj(BTreeMap<String, J>),
}

impl J {
    pub fn obj() -> Self {
        J::Obj(BTreeMap::new())
    }

    pub fn set(&mut self, k: &str, v: J) -> &mut Self {
        if let J::Obj(m) = self {
            m.insert(k.to_string(), v);
        }
        self
    }

    pub fn get(&self, k: &str) -> Option<&J> {
        match self {
            J::Obj(m) => m.get(k),
            _ => None,
        }
    }

    pub fn as_i64(&self) -> Option<i64> {
        match self {
            J::Int(i) => Some(*i),
            J::Num(f) => Some(*f as i64),
            _ => None,
        }
    }

    pub fn as_str(&self) -> Option<&str> {
        match self {
            J::Str(s) => Some(s),
            _ => None,
        }
    }

    pub fn as_arr(&self) -> Option<&[J]> {
        match self {
            J::Arr(a) => Some(a),
            _ => None,
        }
    }

    pub fn s(x: impl Into<String>) -> J {
        J::Str(x.into())
    }

    pub fn i(x: impl TryInto<i64>) -> J {
        J::Int(x.try_into().unwrap_or(i64::MAX))
    }

    pub fn render(&self) -> String {
        let mut out = String::new();
        self.write(&mut out);
        out
    }

    fn write(&self, out: &mut String) {
        match self {
            J::Null => out.push_str("null"),
            J::Bool(b) => out.push_str(if *b { "true" } else { "false" }),
            J::Int(i) => {
                let _ = write!(out, "{i}");
            }
            J::Num(f) => {
                if f.is_finite() {
                    let _ = write!(out, "{f}");
                } else {
                    out.push_str("null");
                }
            }
            J::Str(s) => write_str(out, s),
            J::Arr(a) => {
                out.push('[');
                for (i, x) in a.iter().enumerate() {
                    if i > 0 {
                        out.push(',');
                    }
                    x.write(out);
                }
                out.push(']');
            }
            J::Obj(m) => {
                out.push('{');
                for (i, (k, v)) in m.iter().enumerate() {
                    if i > 0 {
                        out.push(',');
                    }
                    write_str(out, k);
                    out.push(':');
                    v.write(out);
                }
                out.push('}');
            }
        }
    }

    pub fn parse(s: &str) -> Result<J, String> {
        let b = s.as_bytes();
        let mut p = 0usize;
        let v = parse_val(b, &mut p)?;
        skip_ws(b, &mut p);
        if p != b.len() {
            return Err(format!("trailing data at {p}"));
        }
        Ok(v)
    }
}

fn write_str(out: &mut String, s: &str) {
    out.push('"');
    for c in s.chars() {
        match c {
            '"' => out.push_str("\\\""),
            '\\' => out.push_str("\\\\"),
            '\n' => out.push_str("\\n"),
            '\r' => out.push_str("\\r"),
            '\t' => out.push_str("\\t"),
            c if (c as u32) < 0x20 => {
                let _ = write!(out, "\\u{:04x}", c as u32);
            }
            c => out.push(c),
        }
    }
    out.push('"');
}

fn skip_ws(b: &[u8], p: &mut usize) {
    while *p < b.len() && (b[*p] as char).is_ascii_whitespace() {
        *p += 1;
    }
}

fn parse_val(b: &[u8], p: &mut usize) -> Result<J, String> {
    skip_ws(b, p);
    if *p >= b.len() {
        return Err("eof".into());
    }
    match b[*p] {
        b'{' => {
            *p += 1;
            let mut m = BTreeMap::new();
            loop {
                skip_ws(b, p);
                if *p < b.len() && b[*p] == b'}' {
                    *p += 1;
                    break;
                }
                let k = match parse_val(b, p)? {
                    J::Str(s) => s,
                    _ => return Err("key".into()),
                };
                skip_ws(b, p);
                if *p >= b.len() || b[*p] != b':' {
                    return Err("colon".into());
                }
                *p += 1;
                let v = parse_val(b, p)?;
                m.insert(k, v);
                skip_ws(b, p);
                if *p < b.len() && b[*p] == b',' {
                    *p += 1;
                }
            }
            Ok(J::Obj(m))
        }
        b'[' => {
            *p += 1;
            let mut a = vec![];
            loop {
                skip_ws(b, p);
                if *p < b.len() && b[*p] == b']' {
                    *p += 1;
                    break;
                }
                a.push(parse_val(b, p)?);
                skip_ws(b, p);
                if *p < b.len() && b[*p] == b',' {
                    *p += 1;
                }
            }
            Ok(J::Arr(a))
        }
        b'"' => {
            *p += 1;
            let mut s = String::new();
            while *p < b.len() && b[*p] != b'"' {
                if b[*p] == b'\\' && *p + 1 < b.len() {
                    *p += 1;
                    match b[*p] {
                        b'n' => s.push('\n'),
                        b't' => s.push('\t'),
                        b'r' => s.push('\r'),
                        b'u' => {
                            let h = std::str::from_utf8(&b[*p + 1..*p + 5]).map_err(|e| e.to_string())?;
                            let c = u32::from_str_radix(h, 16).map_err(|e| e.to_string())?;
                            s.push(char::from_u32(c).unwrap_or('?'));
                            *p += 4;
                        }
                        c => s.push(c as char),
                    }
                    *p += 1;
                } else {
                    // copy utf8 bytes verbatim
                    let start = *p;
                    *p += 1;
                    while *p < b.len() && (b[*p] & 0xC0) == 0x80 {
                        *p += 1;
                    }
                    s.push_str(std::str::from_utf8(&b[start..*p]).map_err(|e| e.to_string())?);
                }
            }
            *p += 1;
            Ok(J::Str(s))
        }
        b't' => {
            *p += 4;
            Ok(J::Bool(true))
        }
        b'f' => {
            *p += 5;
            Ok(J::Bool(false))
        }
        b'n' => {
            *p += 4;
            Ok(J::Null)
        }
        _ => {
            let start = *p;
            while *p < b.len() && matches!(b[*p], b'-' | b'+' | b'.' | b'e' | b'E' | b'0'..=b'9') {
                *p += 1;
            }
            let t = std::str::from_utf8(&b[start..*p]).map_err(|e| e.to_string())?;
            if let Ok(i) = t.parse::<i64>() {
                Ok(J::Int(i))
            } else {
                t.parse::<f64>().map(J::Num).map_err(|e| format!("{e}: {t:?}"))
            }
        }
    }
}

/// Escapes arbitrary bytes into a printable ASCII string (for keys/values in reports).
pub fn esc(b: &[u8]) -> String {
    let mut s = String::new();
    for &c in b {
        if (0x20..0x7f).contains(&c) && c != b'\\' {
            s.push(c as char);
        } else {
            let _ = write!(s, "\\x{c:02x}");
        }
    }
    s
}
