//! Operation vocabulary and seeded history generators (DESIGN.md §4.5).
//!
//! Ops are concrete and self-contained; anything that depends on run-time state (legal watermark
//! range, table boundaries, level layout, single-delete discipline) is resolved or guarded by the
//! executor, so that dropping ops while shrinking never turns a history into harness misuse.

use crate::keys::{value_len, Class, Universe};
use crate::rng::Rng;

#[derive(Clone, Debug, PartialEq)]
pub enum BoundSpec {
    Unb,
    /// universe key `k`, shifted by `delta` (-1 = just below, +1 = just above)
    Key { k: usize, incl: bool, delta: i8 },
    /// min key of the `t`-th table (mod table count) of the current version
    TableMin { t: usize, incl: bool, delta: i8 },
    /// max key of the `t`-th table
    TableMax { t: usize, incl: bool, delta: i8 },
    Raw { bytes: Vec<u8>, incl: bool },
}

#[derive(Clone, Debug, PartialEq)]
pub enum Op {
    Put { k: usize, vlen: usize },
    Del { k: usize },
    /// distinct keys, one shared seqno; `None` = delete
    Batch { items: Vec<(usize, Option<usize>)> },
    WeakDel { k: usize },
    /// two writers racing a rotation: seqnos s1 < s2 are drawn, `b` is written with s2, the memtable is rotated
    /// (if `rotate`), then `a` is written with s1 - a newer memtable holds a lower seqno than an older one
    LatePair { a: usize, b: usize, vlen: usize, rotate: bool },
    Rotate,
    Flush { rotate: bool, wm: u16 },
    Leveled { target: u64, l0: u8, ratio: u8, reps: u8, wm: u16 },
    Major { target: u64, wm: u16 },
    MoveDown { a: u8, b: u8, wm: u16 },
    PullDown { a: u8, b: u8, wm: u16 },
    SnapOpen { slot: usize },
    SnapRelease { slot: usize },
    /// open a scan at the newest snapshot and keep it (it pins its super version)
    IterOpen { slot: usize },
    /// take `n` items from the held scan's front or back
    IterStep { slot: usize, n: u8, back: bool },
    IterClose { slot: usize },
    Reopen,
    /// ascending keys; `None` = tombstone
    Ingest { items: Vec<(usize, Option<usize>)>, abandon: bool },
    DropRange { lo: BoundSpec, hi: BoundSpec },
    Clear,
    /// append `n` fresh monotonic keys and flush (FIFO profile)
    FifoAppend { n: usize, vlen: usize },
    Fifo { limit_permille: u32, ttl: Option<u64>, wm: u16 },
    Clock { secs: u64 },
    /// extra scan cases against the current layout
    ScanBurst { n: u16 },
}

impl Op {
    pub fn name(&self) -> &'static str {
        match self {
            Op::Put { .. } => "put",
            Op::Del { .. } => "del",
            Op::Batch { .. } => "batch",
            Op::WeakDel { .. } => "weak_del",
            Op::LatePair { .. } => "late_pair",
            Op::Rotate => "rotate",
            Op::Flush { .. } => "flush",
            Op::Leveled { .. } => "leveled",
            Op::Major { .. } => "major",
            Op::MoveDown { .. } => "move_down",
            Op::PullDown { .. } => "pull_down",
            Op::SnapOpen { .. } => "snap_open",
            Op::SnapRelease { .. } => "snap_release",
            Op::IterOpen { .. } => "iter_open",
            Op::IterStep { .. } => "iter_step",
            Op::IterClose { .. } => "iter_close",
            Op::Reopen => "reopen",
            Op::Ingest { abandon: false, .. } => "ingest",
            Op::Ingest { abandon: true, .. } => "ingest_abandoned",
            Op::DropRange { .. } => "drop_range",
            Op::Clear => "clear",
            Op::FifoAppend { .. } => "fifo_append",
            Op::Fifo { .. } => "fifo",
            Op::Clock { .. } => "clock",
            Op::ScanBurst { .. } => "scan_burst",
        }
    }

    pub fn is_write(&self) -> bool {
        matches!(self, Op::Put { .. } | Op::Del { .. } | Op::Batch { .. } | Op::WeakDel { .. } | Op::LatePair { .. })
    }

    pub fn render(&self, uni: &Universe) -> String {
        let key = |k: &usize| crate::json::esc(&uni.keys[*k % uni.keys.len().max(1)]);
        match self {
            Op::Put { k, vlen } => format!("put {} len={}", key(k), vlen),
            Op::Del { k } => format!("del {}", key(k)),
            Op::WeakDel { k } => format!("weak_del {}", key(k)),
            Op::LatePair { a, b, vlen, rotate } => format!("late_pair later-seqno:{} {}earlier-seqno:{} len={}", key(b), if *rotate { "rotate " } else { "" }, key(a), vlen),
            Op::Batch { items } => format!(
                "batch [{}]",
                items
                    .iter()
                    .map(|(k, v)| match v {
                        Some(l) => format!("{}={}", key(k), l),
                        None => format!("{}=DEL", key(k)),
                    })
                    .collect::<Vec<_>>()
                    .join(",")
            ),
            Op::Ingest { items, abandon } => format!(
                "ingest{} [{}]",
                if *abandon { "(abandoned)" } else { "" },
                items
                    .iter()
                    .map(|(k, v)| match v {
                        Some(l) => format!("{}={}", key(k), l),
                        None => format!("{}=DEL", key(k)),
                    })
                    .collect::<Vec<_>>()
                    .join(",")
            ),
            other => format!("{other:?}"),
        }
    }
}

/// Relative weights of op kinds; index = `Kind as usize`.
#[derive(Clone, Copy, Debug, PartialEq, Eq)]
#[repr(usize)]
pub enum Kind {
    Put,
    Del,
    Batch,
    WeakDel,
    Rotate,
    Flush,
    FlushSealed,
    Leveled,
    Major,
    MoveDown,
    PullDown,
    SnapOpen,
    SnapRelease,
    IterOpen,
    IterStep,
    IterClose,
    Reopen,
    Ingest,
    IngestAbandon,
    DropRange,
    Clear,
    ScanBurst,
    LatePair,
    _Count,
}

#[derive(Clone, Debug)]
pub struct Profile {
    pub name: &'static str,
    pub weights: [u32; Kind::_Count as usize],
    pub n_g: usize,
    pub n_w: usize,
    pub n_d: usize,
    pub min_ops: usize,
    pub max_ops: usize,
    pub snap_slots: usize,
    /// probability (percent) that a tree of this profile has a compaction filter installed
    pub filter_pct: u32,
    /// probability (percent) of KV separation
    pub blob_pct: u32,
    /// bias towards tiny compaction targets (multi-table runs)
    pub tiny_targets: bool,
}

fn w(pairs: &[(Kind, u32)]) -> [u32; Kind::_Count as usize] {
    let mut a = [0u32; Kind::_Count as usize];
    for (k, v) in pairs {
        a[*k as usize] = *v;
    }
    a
}

pub fn profile(name: &str) -> Option<Profile> {
    use Kind::*;
    let base = Profile {
        name: "point",
        weights: w(&[
            (LatePair, 2),
            (Put, 34), (Del, 12), (Batch, 8), (Rotate, 8), (Flush, 10), (FlushSealed, 3), (Leveled, 10),
            (Major, 4), (MoveDown, 3), (PullDown, 3), (SnapOpen, 3), (SnapRelease, 2), (Reopen, 2),
        ]),
        n_g: 28,
        n_w: 0,
        n_d: 0,
        min_ops: 60,
        max_ops: 260,
        snap_slots: 3,
        filter_pct: 0,
        blob_pct: 25,
        tiny_targets: true,
    };
    Some(match name {
        "point" => base,
        "snapshot" => Profile {
            name: "snapshot",
            weights: w(&[
                (LatePair, 2),
                (Put, 30), (Del, 10), (Batch, 6), (WeakDel, 3), (Rotate, 6), (Flush, 10), (FlushSealed, 2),
                (Leveled, 10), (Major, 5), (MoveDown, 2), (PullDown, 2), (SnapOpen, 10), (SnapRelease, 6),
                (Reopen, 1), (Ingest, 3), (DropRange, 3), (Clear, 1), (IterOpen, 3), (IterStep, 6), (IterClose, 2),
            ]),
            n_w: 4,
            n_d: 8,
            snap_slots: 6,
            filter_pct: 25,
            blob_pct: 35,
            ..base
        },
        "scan" => Profile {
            name: "scan",
            weights: w(&[
                (LatePair, 2),
                (Put, 30), (Del, 12), (Batch, 8), (Rotate, 8), (Flush, 12), (FlushSealed, 2), (Leveled, 8),
                (Major, 6), (MoveDown, 2), (PullDown, 2), (SnapOpen, 4), (SnapRelease, 2), (ScanBurst, 12),
                (Ingest, 2), (IterOpen, 3), (IterStep, 8), (IterClose, 2),
            ]),
            n_g: 40,
            min_ops: 40,
            max_ops: 160,
            ..base
        },
        "reopen" => Profile {
            name: "reopen",
            weights: w(&[
                (LatePair, 2),
                (Put, 30), (Del, 10), (Batch, 6), (Rotate, 8), (Flush, 12), (FlushSealed, 3), (Leveled, 8),
                (Major, 4), (MoveDown, 3), (PullDown, 2), (SnapOpen, 2), (SnapRelease, 2), (Reopen, 10),
                (Ingest, 4), (IngestAbandon, 3), (DropRange, 3), (Clear, 2),
            ]),
            n_d: 8,
            blob_pct: 45,
            ..base
        },
        "weak" => Profile {
            name: "weak",
            weights: w(&[
                (Put, 36), (WeakDel, 22), (Del, 3), (Rotate, 8), (Flush, 10), (FlushSealed, 2), (Leveled, 9),
                (Major, 5), (MoveDown, 3), (PullDown, 3), (SnapOpen, 5), (SnapRelease, 3), (Reopen, 1),
            ]),
            n_g: 6,
            n_w: 18,
            snap_slots: 4,
            ..base
        },
        "ingest" => Profile {
            name: "ingest",
            weights: w(&[
                (LatePair, 2),
                (Put, 26), (Del, 8), (Batch, 5), (Rotate, 6), (Flush, 8), (FlushSealed, 2), (Leveled, 12),
                (Major, 3), (MoveDown, 3), (PullDown, 4), (SnapOpen, 4), (SnapRelease, 5), (Reopen, 4),
                (Ingest, 14), (IngestAbandon, 2),
            ]),
            n_g: 30,
            snap_slots: 4,
            blob_pct: 45,
            ..base
        },
        "drop" => Profile {
            name: "drop",
            weights: w(&[
                (Put, 30), (Del, 8), (Batch, 6), (Rotate, 6), (Flush, 12), (FlushSealed, 2), (Leveled, 6),
                (Major, 7), (MoveDown, 2), (PullDown, 1), (SnapOpen, 6), (SnapRelease, 4), (Reopen, 4),
                (DropRange, 12), (Clear, 4),
            ]),
            n_g: 16,
            n_d: 24,
            snap_slots: 4,
            blob_pct: 35,
            ..base
        },
        "filter" => Profile {
            name: "filter",
            weights: w(&[
                (Put, 32), (Del, 8), (Batch, 5), (WeakDel, 5), (Rotate, 6), (Flush, 12), (FlushSealed, 2),
                (Leveled, 12), (Major, 8), (MoveDown, 2), (PullDown, 3), (SnapOpen, 6), (SnapRelease, 4),
                (Reopen, 2),
            ]),
            n_g: 22,
            n_w: 10,
            snap_slots: 4,
            filter_pct: 100,
            blob_pct: 45,
            ..base
        },
        "seqno" => Profile {
            name: "seqno",
            weights: w(&[
                (LatePair, 5),
                (Put, 28), (Del, 8), (Batch, 5), (Rotate, 6), (Flush, 12), (FlushSealed, 3), (Leveled, 8),
                (Major, 5), (MoveDown, 3), (PullDown, 2), (SnapOpen, 2), (SnapRelease, 2), (Reopen, 5),
                (Ingest, 8), (DropRange, 6), (Clear, 3),
            ]),
            n_g: 16,
            n_d: 12,
            ..base
        },
        "files" => Profile {
            name: "files",
            weights: w(&[
                (LatePair, 1),
                (Put, 28), (Del, 8), (Batch, 5), (Rotate, 6), (Flush, 14), (FlushSealed, 3), (Leveled, 10),
                (Major, 7), (MoveDown, 3), (PullDown, 2), (SnapOpen, 8), (SnapRelease, 6), (Reopen, 4),
                (Ingest, 4), (IngestAbandon, 2), (DropRange, 5), (Clear, 3), (IterOpen, 4), (IterStep, 8), (IterClose, 3),
            ]),
            n_g: 16,
            n_d: 10,
            snap_slots: 5,
            blob_pct: 50,
            ..base
        },
        "blob" => Profile {
            name: "blob",
            weights: w(&[
                (LatePair, 2),
                (Put, 34), (Del, 10), (Batch, 6), (Rotate, 5), (Flush, 12), (FlushSealed, 2), (Leveled, 10),
                (Major, 8), (MoveDown, 2), (PullDown, 3), (SnapOpen, 5), (SnapRelease, 3), (Reopen, 4),
                (Ingest, 5), (DropRange, 5), (Clear, 1), (IterOpen, 2), (IterStep, 4), (IterClose, 2),
            ]),
            n_g: 18,
            n_d: 8,
            snap_slots: 3,
            filter_pct: 30,
            blob_pct: 100,
            ..base
        },
        "layout" => Profile {
            name: "layout",
            weights: w(&[
                (LatePair, 2),
                (Put, 34), (Del, 10), (Batch, 8), (Rotate, 6), (Flush, 14), (FlushSealed, 3), (Leveled, 16),
                (Major, 6), (MoveDown, 4), (PullDown, 3), (SnapOpen, 2), (SnapRelease, 2), (Reopen, 2),
                (Ingest, 5), (DropRange, 4), (WeakDel, 5),
            ]),
            n_g: 36,
            n_w: 6,
            n_d: 8,
            blob_pct: 30,
            ..base
        },
        "tuning" => Profile {
            name: "tuning",
            weights: w(&[
                (LatePair, 2),
                (Put, 34), (Del, 10), (Batch, 8), (Rotate, 6), (Flush, 12), (FlushSealed, 3), (Leveled, 12),
                (Major, 6), (MoveDown, 3), (PullDown, 3), (SnapOpen, 4), (SnapRelease, 2), (Reopen, 3),
                (Ingest, 3), (ScanBurst, 4),
            ]),
            n_g: 32,
            blob_pct: 0,
            ..base
        },
        "dense" => Profile {
            name: "dense",
            weights: w(&[
                (Batch, 40), (Put, 10), (Del, 6), (Rotate, 3), (Flush, 10), (Leveled, 5), (Major, 4), (SnapOpen, 2),
                (SnapRelease, 1), (Reopen, 1), (ScanBurst, 2),
            ]),
            n_g: 700,
            n_w: 0,
            n_d: 0,
            min_ops: 25,
            max_ops: 70,
            snap_slots: 2,
            filter_pct: 0,
            blob_pct: 0,
            tiny_targets: false,
        },
        // thousands of tiny keys in few tables: the only way a whole tree gets SEVERAL partitions of a partitioned
        // filter / index (the partition size is fixed at 4 KiB at tree level)
        "wide" => Profile {
            name: "wide",
            weights: w(&[(Batch, 40), (Put, 6), (Del, 6), (Rotate, 2), (Flush, 12), (Leveled, 4), (Major, 6), (SnapOpen, 1), (SnapRelease, 1), (Reopen, 2)]),
            n_g: 3600,
            n_w: 0,
            n_d: 0,
            min_ops: 8,
            max_ops: 22,
            snap_slots: 1,
            filter_pct: 0,
            blob_pct: 0,
            tiny_targets: false,
        },
        _ => return None,
    })
}

fn gen_wm(rng: &mut Rng) -> u16 {
    match rng.below(6) {
        0 => 0,
        1 | 2 => 1000, // tight: as high as the protocol allows
        _ => rng.below(1001) as u16,
    }
}

fn gen_target(rng: &mut Rng, tiny: bool) -> u64 {
    if tiny {
        *rng.pick(&[1, 64, 256, 256, 1024, 4096, 65_536, u64::MAX])
    } else {
        *rng.pick(&[256, 4096, 65_536, 1 << 20, u64::MAX])
    }
}

fn gen_bound(rng: &mut Rng, uni: &Universe, prefer: &[usize]) -> BoundSpec {
    let delta = *rng.pick(&[-1i8, 0, 0, 1]);
    let incl = rng.chance(1, 2);
    match rng.below(10) {
        0 => BoundSpec::Unb,
        1..=3 => BoundSpec::TableMin { t: rng.usize(64), incl, delta },
        4..=6 => BoundSpec::TableMax { t: rng.usize(64), incl, delta },
        7 => BoundSpec::Raw {
            bytes: match rng.below(4) {
                0 => vec![0xFF],
                1 => vec![0xFF, 0xFF],
                2 => vec![0],
                _ => b"m".to_vec(),
            },
            incl,
        },
        _ => {
            let k = if !prefer.is_empty() && rng.chance(3, 4) {
                *rng.pick(prefer)
            } else {
                rng.usize(uni.keys.len().max(1))
            };
            BoundSpec::Key { k, incl, delta }
        }
    }
}

/// Generates a history for a profile over a universe.
pub fn gen_history(rng: &mut Rng, p: &Profile, uni: &Universe, thresholds: &[u32]) -> Vec<Op> {
    let n = rng.range(p.min_ops as u64, p.max_ops as u64) as usize;
    let g = uni.of_class(Class::G);
    let wk = uni.of_class(Class::W);
    let d = uni.of_class(Class::D);
    let gd: Vec<usize> = g.iter().chain(d.iter()).copied().collect();
    let mut ops = Vec::with_capacity(n);

    // Hot set: a few keys receive most of the traffic (collisions are where LSM bugs live)
    let hot: Vec<usize> = (0..gd.len().min(6)).map(|_| *rng.pick(&gd)).collect();

    let pick_gd = |rng: &mut Rng| -> usize {
        if !hot.is_empty() && rng.chance(1, 2) {
            *rng.pick(&hot)
        } else {
            *rng.pick(&gd)
        }
    };

    for _ in 0..n {
        let kind = rng.weighted(&p.weights);
        let op = match kind {
            x if x == Kind::Put as usize => {
                let k = if !wk.is_empty() && (gd.is_empty() || rng.below(100) < (wk.len() * 100 / (wk.len() + gd.len())) as u64) {
                    *rng.pick(&wk)
                } else if gd.is_empty() {
                    continue;
                } else {
                    pick_gd(rng)
                };
                Op::Put { k, vlen: value_len(rng, thresholds) }
            }
            x if x == Kind::Del as usize => {
                if gd.is_empty() {
                    continue;
                }
                Op::Del { k: pick_gd(rng) }
            }
            x if x == Kind::Batch as usize => {
                if gd.is_empty() {
                    continue;
                }
                let cnt = if p.name == "dense" { rng.range(100, 500) as usize } else if p.name == "wide" { rng.range(600, 3400) as usize } else { rng.range(2, 6) as usize };
                let mut ks: Vec<usize> = (0..cnt).map(|_| if p.name == "dense" || p.name == "wide" { *rng.pick(&gd) } else { pick_gd(rng) }).collect();
                ks.sort_unstable();
                ks.dedup();
                Op::Batch {
                    items: ks
                        .into_iter()
                        .map(|k| (k, if rng.chance(1, 4) { None } else if p.name == "dense" || p.name == "wide" { Some(rng.range(0, 9) as usize) } else { Some(value_len(rng, thresholds)) }))
                        .collect(),
                }
            }
            x if x == Kind::WeakDel as usize => {
                if wk.is_empty() {
                    continue;
                }
                Op::WeakDel { k: *rng.pick(&wk) }
            }
            x if x == Kind::LatePair as usize => {
                if gd.len() < 2 {
                    continue;
                }
                Op::LatePair { a: pick_gd(rng), b: pick_gd(rng), vlen: value_len(rng, thresholds), rotate: rng.chance(3, 4) }
            }
            x if x == Kind::Rotate as usize => Op::Rotate,
            x if x == Kind::Flush as usize => Op::Flush { rotate: true, wm: gen_wm(rng) },
            x if x == Kind::FlushSealed as usize => Op::Flush { rotate: false, wm: gen_wm(rng) },
            x if x == Kind::Leveled as usize => Op::Leveled {
                // NOTE: u64::MAX is not a meaningful table target for the leveled strategy
                // (level sizes are products of it); keep it to realistic magnitudes
                target: gen_target(rng, p.tiny_targets).min(64 << 20),
                l0: rng.range(1, 4) as u8,
                ratio: *rng.pick(&[2, 3, 10]),
                reps: rng.range(1, 4) as u8,
                wm: gen_wm(rng),
            },
            x if x == Kind::Major as usize => Op::Major { target: gen_target(rng, p.tiny_targets), wm: gen_wm(rng) },
            x if x == Kind::MoveDown as usize => {
                let a = rng.range(0, 5) as u8;
                let b = rng.range(u64::from(a) + 1, 6) as u8;
                Op::MoveDown { a, b, wm: gen_wm(rng) }
            }
            x if x == Kind::PullDown as usize => {
                let a = rng.range(0, 5) as u8;
                let b = rng.range(u64::from(a) + 1, 6) as u8;
                Op::PullDown { a, b, wm: gen_wm(rng) }
            }
            x if x == Kind::SnapOpen as usize => Op::SnapOpen { slot: rng.usize(p.snap_slots.max(1)) },
            x if x == Kind::SnapRelease as usize => Op::SnapRelease { slot: rng.usize(p.snap_slots.max(1)) },
            x if x == Kind::IterOpen as usize => Op::IterOpen { slot: rng.usize(2) },
            x if x == Kind::IterStep as usize => Op::IterStep { slot: rng.usize(2), n: rng.range(1, 6) as u8, back: rng.chance(1, 3) },
            x if x == Kind::IterClose as usize => Op::IterClose { slot: rng.usize(2) },
            x if x == Kind::Reopen as usize => Op::Reopen,
            x if x == Kind::Ingest as usize || x == Kind::IngestAbandon as usize => {
                if gd.is_empty() {
                    continue;
                }
                let cnt = rng.range(1, 20.min(gd.len() as u64)) as usize;
                let mut ks: Vec<usize> = (0..cnt).map(|_| if rng.chance(1, 3) { pick_gd(rng) } else { *rng.pick(&gd) }).collect();
                ks.sort_unstable();
                ks.dedup();
                Op::Ingest {
                    items: ks
                        .into_iter()
                        .map(|k| (k, if rng.chance(1, 3) { None } else { Some(value_len(rng, thresholds)) }))
                        .collect(),
                    abandon: x == Kind::IngestAbandon as usize,
                }
            }
            x if x == Kind::DropRange as usize => {
                let mut lo = gen_bound(rng, uni, &d);
                let mut hi = gen_bound(rng, uni, &d);
                // a share of inverted / degenerate ranges on purpose
                if rng.chance(1, 10) {
                    std::mem::swap(&mut lo, &mut hi);
                }
                Op::DropRange { lo, hi }
            }
            x if x == Kind::Clear as usize => Op::Clear,
            x if x == Kind::ScanBurst as usize => Op::ScanBurst { n: rng.range(10, 60) as u16 },
            _ => continue,
        };
        ops.push(op);
    }
    // "Three generations" of one key at three depths: the oldest value in the last level, a newer value in L0, and
    // on top a delete / overwrite / ingested tombstone - then L0 is merged into an INTERMEDIATE level with the
    // tightest legal watermark, while the oldest generation stays below and outside the merge. Random histories
    // reach this layout rarely; garbage collection that is only legal at the last level (tombstone eviction,
    // single-delete annihilation, seqno zeroing) shows here.
    if p.max_ops >= 100 && p.weights[Kind::PullDown as usize] > 0 && !gd.is_empty() && p.name != "dense" && rng.chance(1, 2) {
        for _ in 0..rng.range(1, 2) {
            let k = pick_gd(rng);
            let vl = |rng: &mut Rng| value_len(rng, thresholds);
            let mut m = vec![
                Op::Put { k, vlen: vl(rng) },
                Op::Flush { rotate: true, wm: 0 },
                Op::Major { target: u64::MAX, wm: gen_wm(rng) },
                Op::Put { k, vlen: vl(rng) },
                Op::Flush { rotate: true, wm: 0 },
            ];
            let with_ingest = p.weights[Kind::Ingest as usize] > 0;
            match rng.below(if with_ingest { 6 } else { 3 }) {
                0 => m.extend([Op::Del { k }, Op::Flush { rotate: true, wm: 0 }]),
                1 => m.extend([Op::Put { k, vlen: vl(rng) }, Op::Flush { rotate: true, wm: 0 }]),
                2 => m.push(Op::Del { k }),
                _ => {
                    let mut ks: Vec<usize> = (0..rng.range(0, 3)).map(|_| *rng.pick(&gd)).collect();
                    ks.push(k);
                    ks.sort_unstable();
                    ks.dedup();
                    m.push(Op::Ingest { items: ks.into_iter().map(|x| (x, if x == k || rng.chance(1, 3) { None } else { Some(vl(rng)) })).collect(), abandon: false });
                }
            }
            if rng.chance(3, 4) {
                m.extend((0..p.snap_slots).map(|slot| Op::SnapRelease { slot }));
            }
            m.push(Op::PullDown { a: 0, b: rng.range(1, 5) as u8, wm: 1000 });
            if rng.chance(1, 2) {
                m.push(Op::Leveled { target: gen_target(rng, true), l0: 1, ratio: 2, reps: 1, wm: 1000 });
            }
            let pos = rng.usize(ops.len() + 1);
            ops.splice(pos..pos, m);
        }
    }
    ops
}

/// FIFO profile: append-only monotonic keys.
pub fn gen_fifo_history(rng: &mut Rng) -> Vec<Op> {
    let n = rng.range(20, 90) as usize;
    let mut ops = vec![];
    let ttl_mode = rng.below(3); // 0 none, 1 short, 2 long
    for _ in 0..n {
        let op = match rng.below(20) {
            0..=8 => Op::FifoAppend { n: rng.range(1, 20) as usize, vlen: *rng.pick(&[7, 16, 64, 200, 1100]) },
            9..=11 => Op::Clock { secs: *rng.pick(&[1, 5, 30, 100, 1000]) },
            12..=16 => Op::Fifo {
                limit_permille: *rng.pick(&[0, 1, 300, 600, 900, 999, 1000, 1001, 1500, 1_000_000]),
                ttl: match ttl_mode {
                    0 => None,
                    1 => Some(*rng.pick(&[1, 10, 60])),
                    _ => Some(*rng.pick(&[500, 5000, 1_000_000])),
                },
                wm: gen_wm(rng),
            },
            17 => Op::Reopen,
            18 => Op::SnapOpen { slot: rng.usize(2) },
            _ => Op::SnapRelease { slot: rng.usize(2) },
        };
        ops.push(op);
    }
    ops
}
