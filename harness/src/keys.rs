//! Key universes and unique values (DESIGN.md §4.2).

use crate::rng::Rng;

pub type Key = Vec<u8>;

#[derive(Clone, Copy, PartialEq, Eq, Debug)]
pub enum Class {
    /// general: insert / overwrite / remove / batches
    G,
    /// single-delete discipline: insert -> remove_weak -> insert ..., never overwritten
    W,
    /// drop-range fodder (general semantics, contiguous key space)
    D,
}

#[derive(Clone, Debug)]
pub struct Universe {
    pub keys: Vec<Key>,
    pub class: Vec<Class>,
}

impl Universe {
    pub fn of_class(&self, c: Class) -> Vec<usize> {
        (0..self.keys.len()).filter(|&i| self.class[i] == c).collect()
    }

    /// Builds a universe with adversarial key shapes. `style` selects the flavour.
    pub fn generate(rng: &mut Rng, n_g: usize, n_w: usize, n_d: usize) -> Self {
        let mut keys: Vec<(Key, Class)> = vec![];
        let style = if n_g >= 400 { 9 } else { rng.below(4) };

        let mut push = |k: Key, c: Class, keys: &mut Vec<(Key, Class)>| {
            if !k.is_empty() && !keys.iter().any(|(x, _)| x == &k) {
                keys.push((k, c));
                true
            } else {
                false
            }
        };

        // general keys
        let mut i = 0u32;
        while keys.iter().filter(|(_, c)| *c == Class::G).count() < n_g {
            i += 1;
            let k: Key = match (style, rng.below(10)) {
                // dense universes: many tiny keys (hundreds of entries per data block)
                (9, _) => format!("{:03x}", i).into_bytes(),
                // 1-byte keys
                (_, 0) => vec![b'a' + (rng.below(20) as u8)],
                // keys ending in 0xFF / 0xFF 0xFF (prefix upper bound carry)
                (_, 1) => {
                    let mut k = format!("g{:02}", rng.below(30)).into_bytes();
                    k.push(0xFF);
                    if rng.chance(1, 2) {
                        k.push(0xFF);
                    }
                    k
                }
                // keys that are prefixes of each other
                (_, 2) => {
                    let base = format!("gp{}", rng.below(4)).into_bytes();
                    let mut k = base;
                    for _ in 0..rng.below(4) {
                        k.push(b'x');
                    }
                    k
                }
                // long shared prefix (stress prefix truncation / restart points)
                (1, _) | (_, 3) => {
                    let mut k = b"g/long/shared/prefix/that/goes/on/and/on/".to_vec();
                    k.extend_from_slice(format!("{:04}", rng.below(400)).as_bytes());
                    k
                }
                // binary-ish keys
                (2, _) => {
                    let mut k = vec![b'g'];
                    for _ in 0..rng.range(1, 5) {
                        k.push(rng.below(256) as u8);
                    }
                    k
                }
                _ => format!("g{:03}", rng.below(300)).into_bytes(),
            };
            let _ = push(k, Class::G, &mut keys);
            if i > 10_000 {
                break;
            }
        }

        let mut j = 0;
        while keys.iter().filter(|(_, c)| *c == Class::W).count() < n_w {
            j += 1;
            let k = if rng.chance(1, 4) {
                let mut k = b"w/long/shared/prefix/for/weak/keys/".to_vec();
                k.extend_from_slice(format!("{:03}", j).as_bytes());
                k
            } else {
                format!("w{:03}", j).into_bytes()
            };
            let _ = push(k, Class::W, &mut keys);
        }

        for d in 0..n_d {
            let k = format!("d{:03}", d * 3 + 1).into_bytes();
            let _ = push(k, Class::D, &mut keys);
        }

        keys.sort_by(|a, b| a.0.cmp(&b.0));
        let class = keys.iter().map(|(_, c)| *c).collect();
        let keys = keys.into_iter().map(|(k, _)| k).collect();
        Self { keys, class }
    }
}

/// Unique value for write number `uid` with (approximately) the requested length.
///
/// Every written value starts with `<uid>#`, so a read identifies which write it observed.
/// `len == 0` yields the empty value (the only non-unique one).
pub fn value(uid: u64, len: usize) -> Vec<u8> {
    if len == 0 {
        return vec![];
    }
    let mut v = format!("{uid:06}#").into_bytes();
    let mut x = uid.wrapping_mul(0x9E37_79B9_7F4A_7C15) | 1;
    let mut run = 0u8;
    while v.len() < len {
        // semi-compressible filler: short random runs
        if run == 0 {
            x ^= x << 13;
            x ^= x >> 7;
            x ^= x << 17;
            run = (x & 7) as u8 + 1;
        }
        run -= 1;
        v.push(b'a' + ((x >> 8) % 26) as u8);
    }
    v
}

/// Interesting value lengths around the thresholds in play.
pub fn value_len(rng: &mut Rng, thresholds: &[u32]) -> usize {
    match rng.below(12) {
        0 => 0,
        1..=4 => rng.range(7, 24) as usize,
        5 | 6 => {
            if thresholds.is_empty() {
                rng.range(7, 64) as usize
            } else {
                let t = *rng.pick(thresholds) as i64;
                let d = rng.range(0, 2) as i64 - 1;
                (t + d).max(7) as usize
            }
        }
        7 | 8 => rng.range(25, 200) as usize,
        9 => rng.range(200, 700) as usize,
        10 => rng.range(700, 3000) as usize,
        _ => rng.range(7, 12) as usize,
    }
}
