//! One real tree + its reference model + all monitors (DESIGN.md §4).

use crate::audit::{self, AuditCache, Finding};
use crate::cfg::TreeCfg;
use crate::hooks;
use crate::json::{esc, J};
use crate::keys::{self, Class, Universe};
use crate::model::{Expect, Kind as MKind, Loc, Model};
use crate::ops::{BoundSpec, Op};
use crate::rng::{fnv64, Rng};
use lsm_tree::compaction::{CompactionFilter, Factory, ItemAccessor, Verdict};
use lsm_tree::verif;
use lsm_tree::{AbstractTree, AnyTree, Cache, DescriptorTable, Guard, SeqNo, SequenceNumberCounter, ValueType};
use std::collections::{BTreeMap, BTreeSet};
use std::ops::Bound;
use std::panic::{catch_unwind, AssertUnwindSafe};
use std::path::{Path, PathBuf};
use std::sync::{Arc, Mutex};

pub type Key = Vec<u8>;

#[derive(Clone, Debug)]
pub struct Violation {
    pub tags: Vec<String>,
    pub sig: String,
    pub msg: String,
}

impl Violation {
    pub fn new(tags: &[&str], sig: impl Into<String>, msg: impl Into<String>) -> Self {
        let mut t: Vec<String> = tags.iter().map(|s| (*s).to_string()).collect();
        t.sort();
        t.dedup();
        Self { tags: t, sig: sig.into(), msg: msg.into() }
    }

    pub fn from_finding(f: &Finding) -> Self {
        Self { tags: vec![f.prop.to_string()], sig: f.sig.clone(), msg: f.msg.clone() }
    }
}

pub type Counters = BTreeMap<String, u64>;

pub fn bump(c: &mut Counters, k: &str, n: u64) {
    *c.entry(k.to_string()).or_insert(0) += n;
}

// ---------------------------------------------------------------------------------------------
// Compaction filter with an event log (C17)

#[derive(Clone, Debug, PartialEq, Eq)]
pub enum FVerdict {
    Keep,
    Remove,
    RemoveWeak,
    Replace(Vec<u8>),
    Destroy,
}

#[derive(Clone, Debug)]
pub struct FilterEvent {
    pub key: Key,
    pub value: Vec<u8>,
    pub verdict: FVerdict,
    pub is_last_level: bool,
    pub was_pointer: bool,
}

pub struct FilterShared {
    pub seed: u64,
    pub log: Mutex<Vec<FilterEvent>>,
    /// keys for which RemoveWeak / Destroy may be returned: keys that were written only once
    /// (exactly one insert in their whole history); refreshed by the executor before every
    /// structural op, because only then the property promises an outcome for these verdicts
    pub weak_ok: Mutex<BTreeSet<Key>>,
    pub large_len: usize,
    pub made: Mutex<u64>,
}

pub fn filter_verdict(sh: &FilterShared, key: &[u8], value: &[u8]) -> FVerdict {
    let mut buf = sh.seed.to_le_bytes().to_vec();
    buf.extend_from_slice(key);
    buf.push(0);
    buf.extend_from_slice(value);
    let h = fnv64(&buf) >> 7;
    let replaced = |len: usize| {
        // unique replacement derived from the (unique) original
        let mut v = b"R".to_vec();
        v.extend_from_slice(&value[..value.len().min(7)]);
        let mut x = h | 1;
        while v.len() < len {
            x ^= x << 13;
            x ^= x >> 7;
            x ^= x << 17;
            v.push(b'A' + (x % 26) as u8);
        }
        v
    };
    match h % 16 {
        0..=7 => FVerdict::Keep,
        8 | 9 => FVerdict::Remove,
        10 => FVerdict::Replace(replaced(9)),
        11 => FVerdict::Replace(replaced(sh.large_len)),
        12 => FVerdict::Replace(replaced(24)),
        13 | 7 if sh.weak_ok.lock().unwrap_or_else(|e| e.into_inner()).contains(key) => FVerdict::RemoveWeak,
        14 | 6 if sh.weak_ok.lock().unwrap_or_else(|e| e.into_inner()).contains(key) => FVerdict::Destroy,
        _ => FVerdict::Keep,
    }
}

struct LogFilter(Arc<FilterShared>);

impl CompactionFilter for LogFilter {
    fn filter_item(&mut self, item: ItemAccessor<'_>, ctx: &lsm_tree::compaction::filter::Context) -> lsm_tree::Result<Verdict> {
        let key = item.key().to_vec();
        let was_pointer = item.is_indirection();
        // NOTE: value() hits the crate's unreachable!() if the filter is ever handed a tombstone
        let value = item.value()?.to_vec();
        let v = filter_verdict(&self.0, &key, &value);
        self.0.log.lock().unwrap_or_else(|e| e.into_inner()).push(FilterEvent {
            key,
            value,
            verdict: v.clone(),
            is_last_level: ctx.is_last_level,
            was_pointer,
        });
        Ok(match v {
            FVerdict::Keep => Verdict::Keep,
            FVerdict::Remove => Verdict::Remove,
            FVerdict::RemoveWeak => Verdict::RemoveWeak,
            FVerdict::Replace(x) => Verdict::ReplaceValue(x.into()),
            FVerdict::Destroy => Verdict::Destroy,
        })
    }
}

struct LogFactory(Arc<FilterShared>);

impl Factory for LogFactory {
    fn name(&self) -> &str {
        "lsmv-log-filter"
    }

    fn make_filter(&self, _ctx: &lsm_tree::compaction::filter::Context) -> Box<dyn CompactionFilter> {
        *self.0.made.lock().unwrap_or_else(|e| e.into_inner()) += 1;
        Box::new(LogFilter(self.0.clone()))
    }
}

// ---------------------------------------------------------------------------------------------

pub struct HeldIter {
    pub it: Box<dyn DoubleEndedIterator<Item = lsm_tree::IterGuardImpl> + Send>,
    pub snap: u64,
    /// what the rest of the scan must yield (model at open time)
    pub expected: std::collections::VecDeque<(Key, Vec<u8>)>,
    /// the super version the scan reads from: its files must stay on disk while the scan lives
    pub pinned: verif::SuperVersion,
    pub tags: Vec<&'static str>,
}

#[derive(Clone, Copy, Debug)]
pub struct Snap {
    pub seq: u64,
    pub version_id: u64,
}

pub struct InstOpts {
    /// "MVCC by data": the harness draws write seqnos / snapshots from its OWN counters (starting at 1 000 000) and the
    /// tree gets separate fresh counters for its version installs - the way the crate's own tests and examples use
    /// the API (hand-picked seqnos). Every snapshot then resolves to the LATEST super version, so what a compaction or
    /// flush with a watermark drops is no longer masked by version pinning: reads at a held snapshot S > T are
    /// answered from the rewritten tables. Only in-session histories of writes, rotation, flush and compaction.
    pub detached: bool,
    pub filter_seed: Option<u64>,
    pub shared: Option<(Arc<Cache>, Option<Arc<DescriptorTable>>)>,
    pub obs_seed: u64,
    /// number of random range/prefix cases per snapshot in a full battery
    pub scan_cases: usize,
    pub fifo: bool,
    /// FIFO mode: keys are appended in descending instead of ascending order
    pub fifo_desc: bool,
    pub known: Arc<BTreeSet<(String, String)>>,
    /// property under check: structural findings that belong to other properties are recorded
    /// and the history continues, so that this property's own monitors still get to run
    pub focus: Option<String>,
    /// length of 'large' filter replacements (must be the same for every tree of a lock-step group)
    pub filter_large_len: usize,
}

pub struct Instance {
    pub detached: bool,
    /// the counters handed to the tree in detached mode
    tree_counters: (SequenceNumberCounter, SequenceNumberCounter),
    /// per snapshot slot: what the snapshot answered for every key when it was opened (C02: "keeps seeing exactly
    /// that for as long as it uses S" - compared with every later answer, independently of the model)
    pub snap_views: Vec<Option<BTreeMap<Key, Option<Vec<u8>>>>>,
    pub dir: PathBuf,
    pub cfg: TreeCfg,
    pub tree: Option<AnyTree>,
    pub seqno: SequenceNumberCounter,
    pub visible: SequenceNumberCounter,
    pub model: Model,
    pub uni: Arc<Universe>,
    pub extra_keys: Vec<Key>,
    pub snaps: Vec<Option<Snap>>,
    pub filter: Option<Arc<FilterShared>>,
    pub shared: Option<(Arc<Cache>, Option<Arc<DescriptorTable>>)>,
    pub uid: u64,
    pub obs: Rng,
    pub scan_cases: usize,
    pub cache: AuditCache,
    pub orphans: (BTreeSet<u64>, BTreeSet<u64>),
    pub counters: Counters,
    /// property tags of the last history-rewriting op (who to blame for a fresh mismatch)
    pub ctx_tags: Vec<&'static str>,
    pub ctx_name: String,
    pub cleared_since_open: bool,
    pub fifo: bool,
    pub fifo_desc: bool,
    pub fifo_next: u64,
    pub layouts: BTreeSet<String>,
    pub installs_seen: u64,
    pub persisted_before_reopen: Option<Option<u64>>,
    pub gc_before_reopen: Option<BTreeMap<u64, (usize, u64, u64)>>,
    /// blob file id -> number of drop-capable version changes seen while unreferenced
    pub unref_age: BTreeMap<u64, u32>,
    pub last_table_ids: Option<BTreeSet<u64>>,
    pub extra_tags: Vec<&'static str>,
    /// (property, signature) pairs listed as known findings: recorded, not fatal
    pub known: Arc<BTreeSet<(String, String)>>,
    pub known_hits: BTreeMap<String, (u64, String)>,
    pub focus: Option<String>,
    pub other_hits: BTreeMap<String, (u64, String)>,
    /// the tree holds blob frames written by bulk ingestion (their frame seqno is 0)
    pub ingested_blobs: bool,
    pub last_blob_ids: BTreeSet<u64>,
    /// blob file id -> name of the op whose version change removed it from the version
    pub blob_left_by: BTreeMap<u64, String>,
    /// physical entries (seqno, type) of single-delete keys before the current structural op
    pub phys_prev: BTreeMap<Key, Vec<(u64, u8, u64)>>,
    /// fault engine: marker file bracketing every call into the crate (exact injection windows)
    pub call_markers: Option<std::fs::File>,
    /// scans held open across later ops (each pins the super version of its snapshot)
    pub iters: Vec<Option<HeldIter>>,
}

fn to_bound(b: &Bound<Key>) -> Bound<Key> {
    b.clone()
}

fn shift_key(k: &[u8], delta: i8) -> Key {
    let mut k = k.to_vec();
    match delta {
        d if d > 0 => k.push(0),
        d if d < 0 => {
            // a key just below: decrement the last byte (and pad), or truncate if it is 0
            if let Some(last) = k.last_mut() {
                if *last > 0 {
                    *last -= 1;
                    k.push(0xFF);
                } else {
                    k.pop();
                }
            }
            if k.is_empty() {
                k.push(0);
            }
        }
        _ => {}
    }
    k
}

impl Instance {
    pub fn create(dir: &Path, cfg: TreeCfg, uni: Arc<Universe>, opts: InstOpts) -> Result<Self, Violation> {
        let filter = opts.filter_seed.map(|seed| {
            let large_len = opts.filter_large_len;
            Arc::new(FilterShared { seed, log: Mutex::new(vec![]), weak_ok: Mutex::new(BTreeSet::new()), large_len, made: Mutex::new(0) })
        });
        let mut me = Self {
            dir: dir.to_path_buf(),
            cfg,
            tree: None,
            detached: opts.detached,
            tree_counters: (SequenceNumberCounter::default(), SequenceNumberCounter::default()),
            seqno: if opts.detached { SequenceNumberCounter::new(1_000_000) } else { SequenceNumberCounter::default() },
            visible: if opts.detached { SequenceNumberCounter::new(1_000_000) } else { SequenceNumberCounter::default() },
            model: Model::new(),
            uni,
            extra_keys: vec![],
            snap_views: vec![],
            snaps: vec![],
            filter,
            shared: opts.shared,
            uid: 0,
            obs: Rng::new(opts.obs_seed),
            scan_cases: opts.scan_cases,
            cache: AuditCache::default(),
            orphans: (BTreeSet::new(), BTreeSet::new()),
            counters: Counters::new(),
            ctx_tags: vec![],
            ctx_name: "create".into(),
            cleared_since_open: false,
            fifo: opts.fifo,
            fifo_desc: opts.fifo_desc,
            fifo_next: 0,
            layouts: BTreeSet::new(),
            installs_seen: 0,
            persisted_before_reopen: None,
            gc_before_reopen: None,
            unref_age: BTreeMap::new(),
            last_table_ids: None,
            extra_tags: vec![],
            known: opts.known.clone(),
            known_hits: BTreeMap::new(),
            focus: opts.focus.clone(),
            other_hits: BTreeMap::new(),
            ingested_blobs: false,
            last_blob_ids: BTreeSet::new(),
            blob_left_by: BTreeMap::new(),
            phys_prev: BTreeMap::new(),
            call_markers: None,
            iters: vec![],
        };
        me.open_tree(&["C04"])?;
        Ok(me)
    }

    /// A violation that matches a listed known finding is recorded and the history continues;
    /// everything else is fatal for the history.
    fn tolerate(&mut self, v: Violation) -> Result<(), Violation> {
        if let Some(tag) = v.tags.iter().find(|t| self.known.contains(&((*t).clone(), v.sig.clone()))) {
            let e = self.known_hits.entry(format!("{tag}|{}", v.sig)).or_insert((0, v.msg.clone()));
            e.0 += 1;
            Ok(())
        } else if self.focus.as_ref().is_some_and(|f| !v.tags.contains(f)) {
            // belongs to another property: that property's own check reports it
            let e = self.other_hits.entry(format!("{}|{}", v.tags.join(","), v.sig)).or_insert((0, v.msg.clone()));
            e.0 += 1;
            Ok(())
        } else {
            Err(v)
        }
    }

    /// Routes a monitor's verdict through `tolerate`: a finding that belongs to another property than the one in
    /// focus (or to a listed known finding) is recorded and the remaining monitors of this step still run, so that
    /// an early monitor of another property cannot hide the property under check.
    fn soft(&mut self, r: Result<(), Violation>) -> Result<(), Violation> {
        match r {
            Ok(()) => Ok(()),
            Err(v) => self.tolerate(v),
        }
    }

    /// Marks the start of a call into the crate (fault engine only; one write syscall).
    pub fn call_start(&mut self) {
        if let Some(f) = self.call_markers.as_mut() {
            use std::io::Write;
            let _ = f.write_all(b"M S\n");
        }
    }

    /// Marks the return of a call into the crate.
    pub fn call_done(&mut self, ok: bool) {
        if let Some(f) = self.call_markers.as_mut() {
            use std::io::Write;
            let _ = f.write_all(if ok { b"M R ok\n" } else { b"M R err\n" });
        }
    }

    pub fn is_compacting(&self) -> bool {
        match self.tree() {
            AnyTree::Standard(t) => t.is_compacting(),
            AnyTree::Blob(b) => b.index.is_compacting(),
        }
    }

    pub fn is_blob(&self) -> bool {
        self.cfg.kv.is_some()
    }

    fn open_tree(&mut self, tags: &[&'static str]) -> Result<(), Violation> {
        let (cs, cv) = if self.detached { self.tree_counters.clone() } else { (self.seqno.clone(), self.visible.clone()) };
        let mut c = self.cfg.build(&self.dir, cs, cv, self.shared.clone());
        if let Some(f) = &self.filter {
            c = c.with_compaction_filter_factory(Some(Arc::new(LogFactory(f.clone()))));
        }
        self.call_start();
        let r = catch_unwind(AssertUnwindSafe(|| c.open()));
        self.call_done(matches!(r, Ok(Ok(_))));
        match r {
            Ok(Ok(t)) => {
                self.tree = Some(t);
                Ok(())
            }
            Ok(Err(e)) => Err(Violation::new(tags, "error:open:Config::open", format!("Config::open failed: {e:?}"))),
            Err(_) => Err(Violation::new(
                tags,
                "open-panic",
                format!("Config::open panicked: {}", hooks::take_panic().unwrap_or_default()),
            )),
        }
    }

    pub fn tree(&self) -> &AnyTree {
        self.tree.as_ref().expect("tree is open")
    }

    pub fn all_keys(&self) -> Vec<Key> {
        let mut v = self.uni.keys.clone();
        v.extend(self.extra_keys.iter().cloned());
        v
    }

    fn live_snaps(&self) -> Vec<u64> {
        self.snaps.iter().flatten().map(|s| s.seq).chain(self.iters.iter().flatten().map(|i| i.snap)).collect()
    }

    fn step_iter(&mut self, slot: usize, n: usize, back: bool, drain: bool) -> Result<(), Violation> {
        let Some(Some(h)) = self.iters.get_mut(slot) else { return Ok(()) };
        let mut taken = 0usize;
        loop {
            if !drain && taken >= n {
                break;
            }
            let item = if back { h.it.next_back() } else { h.it.next() };
            let exp = if item.is_some() || drain || taken < n {
                if back { h.expected.pop_back() } else { h.expected.pop_front() }
            } else {
                None
            };
            let got = match item {
                None => None,
                Some(g) => match g.into_inner() {
                    Ok((k, v)) => Some((k.to_vec(), v.to_vec())),
                    Err(e) => {
                        let tags = h.tags.clone();
                        let snap = h.snap;
                        self.iters[slot] = None;
                        return Err(Violation::new(&tags, "held-scan:error", format!("a scan held open at snapshot {snap} returned Err after later maintenance: {e:?}")));
                    }
                },
            };
            taken += 1;
            if got != exp {
                let tags = h.tags.clone();
                let snap = h.snap;
                self.iters[slot] = None;
                return Err(Violation::new(
                    &tags,
                    "held-scan:mismatch",
                    format!(
                        "a scan held open at snapshot {snap} yields {:?} from the {}, expected {:?} (the view it was opened on)",
                        got.map(|(k, v)| (esc(&k), esc(&v[..v.len().min(16)]))),
                        if back { "back" } else { "front" },
                        exp.map(|(k, v)| (esc(&k), esc(&v[..v.len().min(16)])))
                    ),
                ));
            }
            if got.is_none() {
                break;
            }
        }
        bump(&mut self.counters, "held_scan_items_compared", taken as u64);
        if drain {
            self.iters[slot] = None;
        }
        Ok(())
    }

    /// Resolves a watermark selector into a legal GC watermark (strictly below every live snapshot).
    pub fn watermark(&self, sel: u16) -> u64 {
        if self.detached && !self.live_snaps().is_empty() {
            // Without version pinning a held snapshot S is only safe under "no garbage collection": the crate's
            // stream drops every version below the watermark that has ANY newer version, also one written after S
            // (by design - snapshot isolation comes from the pinned super version, DESIGN 4.11). What this mode
            // checks is that nothing is collected that the watermark does not allow.
            return 0;
        }
        let m = self.live_snaps().into_iter().chain(std::iter::once(self.visible.get())).min().unwrap_or(0);
        if m == 0 {
            return 0;
        }
        let max_t = m - 1;
        match sel {
            0 => 0,
            1000 => max_t,
            s => (u128::from(max_t) * u128::from(s) / 1000) as u64,
        }
    }

    fn next_value(&mut self, vlen: usize) -> Vec<u8> {
        self.uid += 1;
        // the empty value is the only non-unique one; with a compaction filter installed the
        // value is what identifies the entry the filter was shown
        let vlen = if vlen == 0 && self.filter.is_some() { 7 } else { vlen };
        keys::value(self.uid, vlen)
    }

    fn blame(&self, base: &[&'static str]) -> Vec<&'static str> {
        let mut t: Vec<&'static str> = base.to_vec();
        t.extend(self.ctx_tags.iter().copied());
        self.blame_common(t)
    }

    /// Tags for failures of the op itself (panic / Err): the op's own properties, not the context.
    fn blame_op(&self, op: &Op) -> Vec<&'static str> {
        let mut t: Vec<&'static str> = vec!["C01"];
        t.extend(op_tags(op));
        if self.filter.is_some() && matches!(op, Op::Leveled { .. } | Op::Major { .. } | Op::PullDown { .. }) {
            // a compaction that runs the user's filter: a failure in it is a C17 matter too
            // (e.g. the crate's unreachable!() when the filter is handed a tombstone)
            t.push("C17");
        }
        self.blame_common(t)
    }

    fn blame_common(&self, mut t: Vec<&'static str>) -> Vec<&'static str> {
        if self.is_blob() {
            // C01 is stated for the standard tree configurations; whatever only a KV-separated
            // tree gets wrong is a C08 matter (the standard instances answer for C01)
            t.retain(|x| *x != "C01");
            t.push("C08");
        }
        if self.fifo {
            t.push("C19");
        }
        t.extend(self.extra_tags.iter().copied());
        t
    }

    fn latest(&self) -> (u64, u64) {
        let lock = self.tree().get_version_history_lock();
        let sv = lock.latest_version();
        let (v, seq, _, _) = verif::super_version_parts(&sv);
        (v.id(), seq)
    }

    // -----------------------------------------------------------------------------------------
    // executing ops

    /// Executes one op with all monitors. A panic anywhere inside the crate is a violation.
    pub fn exec(&mut self, idx: usize, op: &Op) -> Result<(), Violation> {
        let r = catch_unwind(AssertUnwindSafe(|| self.exec_inner(idx, op)));
        if std::env::var_os("LSMV_TRACE").is_some() {
            eprintln!("--- after #{idx} {} -> {}", op.render(&self.uni), if matches!(r, Ok(Ok(()))) { "ok" } else { "VIOLATION/PANIC" });
            if let Some(t) = &self.tree {
                let v = t.current_version();
                eprintln!("    version {} visible={} seqno={} sealed={}", v.id(), self.visible.get(), self.seqno.get(), t.sealed_memtable_count());
                for (li, l) in v.iter_levels().enumerate() {
                    for (ri, run) in l.iter().enumerate() {
                        for tb in run.iter() {
                            let s = audit::summarize_table(tb);
                            let ks: Vec<String> = s.keys.iter().map(|(k, (mx, mn))| format!("{}@{}..{}", esc(k), mn, mx)).collect();
                            eprintln!("    L{li} run{ri} table {} g={} items={} [{}]", tb.id(), tb.global_seqno(), s.n_items, ks.join(" "));
                        }
                    }
                }
            }
        }
        match r {
            Ok(r) => r.map_err(|mut v| {
                v.msg = format!("after op #{idx} ({}): {}", op.name(), v.msg);
                v
            }),
            Err(_) => {
                let p = hooks::take_panic().unwrap_or_default();
                let site = p.rsplit(" @ ").next().unwrap_or("").to_string();
                let tags = self.blame_op(op);
                let sig = if p.contains("vptr was not matched with blob") && self.ingested_blobs {
                    // relocation of blob files that hold frames written by bulk ingestion
                    "panic:vptr-not-matched:tree-holds-ingested-blob-frames".to_string()
                } else {
                    format!("panic:{}:{}", op.name(), site)
                };
                Err(Violation::new(
                    &tags,
                    sig,
                    format!("panic during op #{idx} ({}): {p}", op.name()),
                ))
            }
        }
    }

    fn op_err(&self, op: &Op, what: &str, e: &lsm_tree::Error) -> Violation {
        let tags = self.blame_op(op);
        Violation::new(&tags, format!("error:{}:{what}", op.name()), format!("{what} returned Err in a fault-free run: {e:?}"))
    }

    fn exec_inner(&mut self, _idx: usize, op: &Op) -> Result<(), Violation> {
        if self.detached && matches!(op, Op::Ingest { .. } | Op::Clear | Op::DropRange { .. } | Op::Reopen | Op::Fifo { .. } | Op::FifoAppend { .. }) {
            // these rely on version pinning / the shared counters (or end the session): not part of "MVCC by data"
            bump(&mut self.counters, "skipped:detached", 1);
            return Ok(());
        }
        bump(&mut self.counters, &format!("op:{}", op.name()), 1);
        let nkeys = self.uni.keys.len().max(1);
        if !op.is_write() && self.tree.is_some() {
            // physical state of the single-delete keys right before a structural op
            self.phys_prev = self.physical_w_entries();
            if let Some(f) = &self.filter {
                // RemoveWeak / Destroy only have a promised outcome for keys written only once
                let mut once = BTreeSet::new();
                for i in self.uni.of_class(Class::W) {
                    let k = &self.uni.keys[i];
                    let es = self.model.newest().map.get(k);
                    let puts = es.map_or(0, |es| es.iter().filter(|e| matches!(e.kind, MKind::Put(_))).count());
                    let dels = es.map_or(0, |es| es.iter().filter(|e| e.kind == MKind::Del).count());
                    if puts == 1 && dels == 0 && !self.model.newest().taint.contains_key(k) {
                        once.insert(k.clone());
                    }
                }
                *f.weak_ok.lock().unwrap_or_else(|e| e.into_inner()) = once;
            }
        }
        match op {
            Op::Put { k, vlen } => {
                let k = *k % nkeys;
                let key = self.uni.keys[k].clone();
                if self.uni.class[k] == Class::W {
                    // single-delete discipline: only insert when absent, never overwrite
                    if self.model.read(&key, u64::MAX) != Expect::Exact(None) {
                        bump(&mut self.counters, "skipped:put_w", 1);
                        return Ok(());
                    }
                }
                let v = self.next_value(*vlen);
                let s = self.seqno.next();
                let _ = self.tree().insert(key.clone(), v.clone(), s);
                self.visible.fetch_max(s + 1);
                self.model.write(&key, s, MKind::Put(v), Loc::Active);
                self.post_write(&[key])
            }
            Op::Del { k } => {
                let k = *k % nkeys;
                if self.uni.class[k] == Class::W {
                    return Ok(());
                }
                let key = self.uni.keys[k].clone();
                let s = self.seqno.next();
                let _ = self.tree().remove(key.clone(), s);
                self.visible.fetch_max(s + 1);
                self.model.write(&key, s, MKind::Del, Loc::Active);
                self.post_write(&[key])
            }
            Op::WeakDel { k } => {
                let k = *k % nkeys;
                if self.uni.class[k] != Class::W {
                    return Ok(());
                }
                let key = self.uni.keys[k].clone();
                // exactly one insert since the previous weak delete
                match self.model.read(&key, u64::MAX) {
                    Expect::Exact(Some(_)) => {}
                    _ => {
                        bump(&mut self.counters, "skipped:weak_del", 1);
                        return Ok(());
                    }
                }
                let s = self.seqno.next();
                let _ = self.tree().remove_weak(key.clone(), s);
                self.visible.fetch_max(s + 1);
                self.model.write(&key, s, MKind::WeakDel, Loc::Active);
                self.post_write(&[key])
            }
            Op::LatePair { a, b, vlen, rotate } => {
                let (a, b) = (*a % nkeys, *b % nkeys);
                if a == b || self.uni.class[a] == Class::W || self.uni.class[b] == Class::W {
                    return Ok(());
                }
                let (ka, kb) = (self.uni.keys[a].clone(), self.uni.keys[b].clone());
                let (va, vb) = (self.next_value(*vlen), self.next_value(*vlen));
                // writer A draws s1, writer B draws s2 and gets ahead; the visible counter is only published once both are applied
                let s1 = self.seqno.next();
                let s2 = self.seqno.next();
                let _ = self.tree().insert(kb.clone(), vb.clone(), s2);
                self.model.write(&kb, s2, MKind::Put(vb), Loc::Active);
                if *rotate && self.tree().rotate_memtable().is_some() {
                    self.model.rotate();
                }
                let _ = self.tree().insert(ka.clone(), va.clone(), s1);
                self.model.write(&ka, s1, MKind::Put(va), Loc::Active);
                self.visible.fetch_max(s2 + 1);
                bump(&mut self.counters, "late_pairs", 1);
                self.post_write(&[ka, kb])
            }
            Op::Batch { items } => {
                let s = self.seqno.next();
                let mut touched = vec![];
                let mut seen = BTreeSet::new();
                for (k, v) in items {
                    let k = *k % nkeys;
                    if self.uni.class[k] == Class::W || !seen.insert(k) {
                        continue;
                    }
                    let key = self.uni.keys[k].clone();
                    match v {
                        Some(vlen) => {
                            let v = self.next_value(*vlen);
                            let _ = self.tree().insert(key.clone(), v.clone(), s);
                            self.model.write(&key, s, MKind::Put(v), Loc::Active);
                        }
                        None => {
                            let _ = self.tree().remove(key.clone(), s);
                            self.model.write(&key, s, MKind::Del, Loc::Active);
                        }
                    }
                    touched.push(key);
                }
                self.visible.fetch_max(s + 1);
                self.post_write(&touched)
            }
            Op::Rotate => {
                let r = self.tree().rotate_memtable();
                if r.is_some() {
                    self.model.rotate();
                }
                self.set_ctx(&[], "rotate");
                self.post_structural()
            }
            Op::Flush { rotate, wm } => {
                let t = self.watermark(*wm);
                let tree = self.tree().clone();
                let lock = tree.get_flush_lock();
                if *rotate && tree.rotate_memtable().is_some() {
                    self.model.rotate();
                }
                self.call_start();
                let r = tree.flush(&lock, t);
                self.call_done(r.is_ok());
                drop(lock);
                r.map_err(|e| self.op_err(op, "flush", &e))?;
                self.model.flushed();
                self.set_ctx(&[], "flush");
                self.post_structural()
            }
            Op::Leveled { target, l0, ratio, reps, wm } => {
                for rep in 0..*reps {
                    if rep > 0 {
                        // the known-finding signature of C13 asks whether the resurfaced entry sits in a table THIS
                        // compaction did not rewrite: "before" is the state before this round, not before the op (an
                        // earlier round may have moved the table; the thorough tier misfiled the known defect as a
                        // new one at seed 6, case 2144)
                        self.phys_prev = self.physical_w_entries();
                    }
                    let t = self.watermark(*wm);
                    let strat = lsm_tree::compaction::Leveled::default()
                        .with_table_target_size(*target)
                        .with_l0_threshold(*l0)
                        .with_level_ratio_policy(vec![f32::from(*ratio)]);
                    let before = self.latest().0;
                    self.call_start();
                    let r = self.tree().compact(Arc::new(strat), t);
                    self.call_done(r.is_ok());
                    r.map_err(|e| self.op_err(op, "compact(leveled)", &e))?;
                    if std::env::var_os("LSMV_TRACE").is_some() {
                        eprintln!("    [leveled rep] watermark={t} layout={}", self.describe_layout().render());
                    }
                    self.set_ctx(&[], "leveled");
                    let r = self.after_compaction();
                    self.soft(r)?;
                    self.post_structural()?;
                    if self.latest().0 == before {
                        break;
                    }
                }
                Ok(())
            }
            Op::Major { target, wm } => {
                let t = self.watermark(*wm);
                self.call_start();
                let r = self.tree().major_compact(*target, t);
                self.call_done(r.is_ok());
                r.map_err(|e| self.op_err(op, "major_compact", &e))?;
                self.set_ctx(&[], "major");
                let r = self.after_compaction();
                self.soft(r)?;
                self.post_structural()
            }
            Op::MoveDown { a, b, wm } => {
                if !self.levels_allow(*a, *b, true) {
                    bump(&mut self.counters, "skipped:move_down", 1);
                    return Ok(());
                }
                let t = self.watermark(*wm);
                self.call_start();
                let r = self.tree().compact(Arc::new(lsm_tree::compaction::MoveDown(*a, *b)), t);
                self.call_done(r.is_ok());
                r.map_err(|e| self.op_err(op, "compact(move_down)", &e))?;
                self.set_ctx(&[], "move_down");
                self.post_structural()
            }
            Op::PullDown { a, b, wm } => {
                if !self.levels_allow(*a, *b, false) {
                    bump(&mut self.counters, "skipped:pull_down", 1);
                    return Ok(());
                }
                let t = self.watermark(*wm);
                self.call_start();
                let r = self.tree().compact(Arc::new(lsm_tree::compaction::PullDown(*a, *b)), t);
                self.call_done(r.is_ok());
                r.map_err(|e| self.op_err(op, "compact(pull_down)", &e))?;
                self.set_ctx(&[], "pull_down");
                let r = self.after_compaction();
                self.soft(r)?;
                self.post_structural()
            }
            Op::SnapOpen { slot } => {
                let s = self.visible.get();
                if s == 0 {
                    return Ok(());
                }
                while self.snaps.len() <= *slot {
                    self.snaps.push(None);
                }
                if self.snaps[*slot].is_some() {
                    return Ok(());
                }
                let vid = {
                    let lock = self.tree().get_version_history_lock();
                    let sv = lock.get_version_for_snapshot(s);
                    verif::super_version_parts(&sv).0.id()
                };
                self.snaps[*slot] = Some(Snap { seq: s, version_id: vid });
                {
                    let t = self.tree().clone();
                    let mut view = BTreeMap::new();
                    for k in self.all_keys() {
                        if let Ok(v) = t.get(&k, s) {
                            view.insert(k, v.map(|v| v.to_vec()));
                        }
                    }
                    while self.snap_views.len() <= *slot {
                        self.snap_views.push(None);
                    }
                    self.snap_views[*slot] = Some(view);
                }
                bump(&mut self.counters, "snapshots_opened", 1);
                self.battery_for(&[SnapSel::Live(*slot, s)], true)
            }
            Op::SnapRelease { slot } => {
                if let Some(s) = self.snaps.get_mut(*slot) {
                    *s = None;
                }
                if let Some(v) = self.snap_views.get_mut(*slot) {
                    *v = None;
                }
                let min = self.live_snaps().into_iter().min();
                self.model.prune(min);
                Ok(())
            }
            Op::IterOpen { slot } => {
                let s = self.visible.get();
                if s == 0 {
                    return Ok(());
                }
                while self.iters.len() <= *slot {
                    self.iters.push(None);
                }
                if self.iters[*slot].is_some() {
                    return Ok(());
                }
                let (exp, unknown) = self.model.world_for(s).scan(s, &Bound::Unbounded, &Bound::Unbounded);
                if !unknown.is_empty() {
                    return Ok(());
                }
                let pinned = self.tree().get_version_history_lock().get_version_for_snapshot(s);
                let it = self.tree().iter(s, None);
                let mut tags = self.blame(&["C02", "C03", "C20"]);
                tags.retain(|t| *t != "C01");
                self.iters[*slot] = Some(HeldIter { it, snap: s, expected: exp.into(), pinned, tags });
                bump(&mut self.counters, "held_scans_opened", 1);
                Ok(())
            }
            Op::IterStep { slot, n, back } => self.step_iter(*slot, usize::from(*n), *back, false),
            Op::IterClose { slot } => self.step_iter(*slot, 0, false, true),
            Op::Reopen => self.reopen(),
            Op::Ingest { items, abandon } => self.ingest(op, items, *abandon),
            Op::DropRange { lo, hi } => self.drop_range(op, lo, hi),
            Op::Clear => {
                let before = self.latest().0;
                self.call_start();
                let r = self.tree().clear();
                self.call_done(r.is_ok());
                r.map_err(|e| self.op_err(op, "clear", &e))?;
                let (vid, seq) = self.latest();
                if vid != before {
                    self.model.clear(seq);
                }
                self.cleared_since_open = true;
                self.ingested_blobs = false;
                self.set_ctx(&["C15"], "clear");
                self.post_structural()?;
                // later snapshots must see an empty tree
                let t = self.tree();
                let s = self.visible.get();
                let len = t.len(s, None).map_err(|e| self.op_err(op, "len", &e))?;
                let empty = t.is_empty(s, None).map_err(|e| self.op_err(op, "is_empty", &e))?;
                if len != 0 || !empty {
                    return Err(Violation::new(&self.blame(&["C15"]), "clear-not-empty", format!("after clear(): len={len} is_empty={empty} at snapshot {s}")));
                }
                Ok(())
            }
            Op::FifoAppend { n, vlen } => {
                let mut touched = vec![];
                for _ in 0..*n {
                    let n = if self.fifo_desc { 99_999_999 - self.fifo_next } else { self.fifo_next };
                    let key = format!("f{n:08}").into_bytes();
                    self.fifo_next += 1;
                    let v = self.next_value(*vlen);
                    let s = self.seqno.next();
                    let _ = self.tree().insert(key.clone(), v.clone(), s);
                    self.visible.fetch_max(s + 1);
                    self.model.write(&key, s, MKind::Put(v), Loc::Active);
                    self.extra_keys.push(key.clone());
                    touched.push(key);
                }
                let t = self.watermark(500);
                self.model.rotate();
                self.tree().flush_active_memtable(t).map_err(|e| self.op_err(op, "flush", &e))?;
                self.model.flushed();
                self.set_ctx(&[], "fifo_append");
                self.post_structural()
            }
            Op::Fifo { limit_permille, ttl, wm } => self.fifo_compact(op, *limit_permille, *ttl, *wm),
            Op::Clock { secs } => {
                hooks::advance_clock(*secs);
                Ok(())
            }
            Op::ScanBurst { n } => {
                let snaps = self.snap_sels();
                for _ in 0..*n {
                    let sel = snaps[self.obs.usize(snaps.len())];
                    self.random_scan_case(sel)?;
                }
                Ok(())
            }
        }
    }

    fn set_ctx(&mut self, tags: &[&'static str], name: &str) {
        self.ctx_tags = tags.to_vec();
        self.ctx_name = name.to_string();
    }

    /// MoveDown / PullDown are test-only strategies without safety checks; only use them where the
    /// real strategies would: downwards, with every level strictly in between empty.
    fn levels_allow(&self, a: u8, b: u8, moving: bool) -> bool {
        if a >= b || b > 6 {
            return false;
        }
        let v = self.tree().current_version();
        let cnt = |i: u8| v.level(usize::from(i)).map_or(0, |l| l.table_count());
        let runs = |i: u8| v.level(usize::from(i)).map_or(0, |l| l.run_count());
        for i in (a + 1)..b {
            if cnt(i) > 0 {
                return false;
            }
        }
        if moving {
            // a multi-run source level would be turned into one (overlapping) run, and the real
            // strategies only ever move tables into a level they do not overlap (a non-L0 level
            // with several runs is a layout the leveled strategy is not written for)
            let ranges = |i: u8| -> Vec<(Key, Key)> {
                v.level(usize::from(i))
                    .map(|l| {
                        l.iter()
                            .flat_map(|r| r.iter())
                            .map(|t| (t.metadata.key_range.min().to_vec(), t.metadata.key_range.max().to_vec()))
                            .collect()
                    })
                    .unwrap_or_default()
            };
            let src = ranges(a);
            let dst = ranges(b);
            let overlap = src.iter().any(|(a0, a1)| dst.iter().any(|(b0, b1)| a0 <= b1 && b0 <= a1));
            cnt(a) > 0 && runs(a) == 1 && !overlap
        } else {
            cnt(a) + cnt(b) > 0
        }
    }

    fn resolve_bound(&self, b: &BoundSpec, tables: &[(Key, Key)]) -> Bound<Key> {
        let mk = |k: Key, incl: bool| if incl { Bound::Included(k) } else { Bound::Excluded(k) };
        match b {
            BoundSpec::Unb => Bound::Unbounded,
            BoundSpec::Key { k, incl, delta } => mk(shift_key(&self.uni.keys[*k % self.uni.keys.len().max(1)], *delta), *incl),
            BoundSpec::TableMin { t, incl, delta } => {
                if tables.is_empty() {
                    Bound::Unbounded
                } else {
                    mk(shift_key(&tables[*t % tables.len()].0, *delta), *incl)
                }
            }
            BoundSpec::TableMax { t, incl, delta } => {
                if tables.is_empty() {
                    Bound::Unbounded
                } else {
                    mk(shift_key(&tables[*t % tables.len()].1, *delta), *incl)
                }
            }
            BoundSpec::Raw { bytes, incl } => mk(bytes.clone(), *incl),
        }
    }

    fn table_ranges(&self) -> Vec<(Key, Key)> {
        self.tree()
            .current_version()
            .iter_tables()
            .map(|t| (t.metadata.key_range.min().to_vec(), t.metadata.key_range.max().to_vec()))
            .collect()
    }

    fn table_ids(&self) -> BTreeSet<u64> {
        self.tree().current_version().iter_tables().map(lsm_tree::Table::id).collect()
    }

    fn drop_range(&mut self, op: &Op, lo: &BoundSpec, hi: &BoundSpec) -> Result<(), Violation> {
        let tr = self.table_ranges();
        let lo = self.resolve_bound(lo, &tr);
        let hi = self.resolve_bound(hi, &tr);
        let before_ids = self.table_ids();
        let before_vid = self.latest().0;
        let empty_range = match (&lo, &hi) {
            (Bound::Included(a) | Bound::Excluded(a), Bound::Included(b) | Bound::Excluded(b)) => {
                a > b || (a == b && !(matches!(lo, Bound::Included(_)) && matches!(hi, Bound::Included(_))))
            }
            _ => false,
        };
        self.call_start();
        let r = self.tree().drop_range::<Key, _>((to_bound(&lo), to_bound(&hi)));
        self.call_done(r.is_ok());
        r.map_err(|e| self.op_err(op, "drop_range", &e))?;
        let (vid, seq) = self.latest();
        let after_ids = self.table_ids();
        if empty_range {
            bump(&mut self.counters, "drop_range:empty_or_inverted", 1);
            if after_ids != before_ids {
                return Err(Violation::new(
                    &self.blame(&["C15"]),
                    "drop-range-empty-changed-tables",
                    format!("empty/inverted drop_range({lo:?},{hi:?}) changed the table set {before_ids:?} -> {after_ids:?}"),
                ));
            }
        }
        if vid != before_vid {
            let dropped: Vec<u64> = before_ids.difference(&after_ids).copied().collect();
            bump(&mut self.counters, "drop_range:tables_dropped", dropped.len() as u64);
            let universe = self.all_keys();
            self.model.drop_range(seq, &lo, &hi, &universe);
        }
        self.set_ctx(&["C15"], "drop_range");
        self.post_structural()
    }

    fn ingest(&mut self, op: &Op, items: &[(usize, Option<usize>)], abandon: bool) -> Result<(), Violation> {
        let nkeys = self.uni.keys.len().max(1);
        let mut batch: Vec<(Key, Option<Vec<u8>>)> = vec![];
        let mut seen = BTreeSet::new();
        for (k, v) in items {
            let k = *k % nkeys;
            if self.uni.class[k] == Class::W || !seen.insert(k) {
                continue;
            }
            let key = self.uni.keys[k].clone();
            let v = v.map(|l| self.next_value(l));
            batch.push((key, v));
        }
        batch.sort();
        if batch.is_empty() {
            return Ok(());
        }
        let tree = self.tree().clone();
        let before = if abandon { audit::list_dir(&self.dir) } else { Default::default() };
        self.call_start();
        let r = (|| -> lsm_tree::Result<Option<lsm_tree::AnyIngestion<'_>>> {
            let mut ing = tree.ingestion()?;
            for (k, v) in &batch {
                match v {
                    Some(v) => ing.write(k.clone(), v.clone())?,
                    None => ing.write_tombstone(k.clone())?,
                }
            }
            if abandon {
                Ok(Some(ing))
            } else {
                ing.finish()?;
                Ok(None)
            }
        })();
        self.call_done(r.is_ok());
        let ing = r.map_err(|e| self.op_err(op, "ingestion", &e))?;
        if abandon {
            drop(ing);
            // whatever the abandoned writer left behind is an orphan until the next reopen
            let after = audit::list_dir(&self.dir);
            for t in after.0.difference(&before.0) {
                self.orphans.0.insert(*t);
            }
            for b in after.1.difference(&before.1) {
                self.orphans.1.insert(*b);
            }
            self.set_ctx(&["C14"], "ingest_abandoned");
            return self.post_structural();
        }
        // finish() flushed every memtable first
        self.model.rotate();
        self.model.flushed();
        let (_, g) = self.latest();
        for (k, v) in &batch {
            match v {
                Some(v) => self.model.write(k, g, MKind::Put(v.clone()), Loc::Persisted),
                None => self.model.write(k, g, MKind::Del, Loc::Persisted),
            }
        }
        bump(&mut self.counters, "ingested_entries", batch.len() as u64);
        if let Some(kv) = &self.cfg.kv {
            if batch.iter().any(|(_, v)| v.as_ref().is_some_and(|v| v.len() >= kv.threshold as usize)) {
                self.ingested_blobs = true;
                bump(&mut self.counters, "ingests_writing_blobs", 1);
            }
        }
        self.set_ctx(&["C14"], "ingest");
        // all entries must carry the one seqno of the installing version
        for (k, v) in &batch {
            if v.is_some() {
                let e = self.tree().get_internal_entry(k, SeqNo::MAX).map_err(|e| self.op_err(op, "get_internal_entry", &e))?;
                match e {
                    Some(e) if e.key.seqno == g => {}
                    other => {
                        return Err(Violation::new(
                            &self.blame(&["C14"]),
                            "ingest-seqno",
                            format!("ingested key {:?} expected at seqno {g}, got {:?}", esc(k), other.map(|e| e.key.seqno)),
                        ))
                    }
                }
            }
        }
        self.post_structural()
    }

    fn reopen(&mut self) -> Result<(), Violation> {
        // realistic close: nothing of ours keeps tables alive
        for slot in 0..self.iters.len() {
            self.step_iter(slot, 0, false, true)?;
        }
        self.iters.clear();
        let _ = hooks::drain_installs();
        // (a previous, failed reopen may already have closed the tree: keep what was recorded then)
        if self.tree.is_some() {
            let persisted = self.tree().get_highest_persisted_seqno();
            let gc: BTreeMap<u64, (usize, u64, u64)> = self
                .tree()
                .current_version()
                .gc_stats()
                .iter()
                .map(|(k, v)| (*k, verif::frag_entry_parts(v)))
                .collect();
            self.persisted_before_reopen = Some(persisted);
            self.gc_before_reopen = Some(gc);
        }
        self.tree = None;
        self.snaps.clear();
        self.model.reopen();
        self.cache = AuditCache::default();
        self.open_tree(&["C04", "C05"])?;
        self.cleared_since_open = false;
        self.orphans = (BTreeSet::new(), BTreeSet::new());
        self.unref_age.clear();
        self.set_ctx(&["C04"], "reopen");
        bump(&mut self.counters, "reopens", 1);

        // C18: persisted mark identical before/after reopen
        let now = self.tree().get_highest_persisted_seqno();
        if Some(now) != self.persisted_before_reopen {
            return Err(Violation::new(
                &["C18", "C04"],
                "persisted-seqno-changed-by-reopen",
                format!("get_highest_persisted_seqno {:?} before reopen, {now:?} after", self.persisted_before_reopen),
            ));
        }
        // C09: statistics survive reopen unchanged
        let listed: BTreeSet<u64> = self.tree().current_version().blob_files.iter().map(lsm_tree::BlobFile::id).collect();
        let gc_now: BTreeMap<u64, (usize, u64, u64)> = self
            .tree()
            .current_version()
            .gc_stats()
            .iter()
            .filter(|(k, _)| listed.contains(k))
            .map(|(k, v)| (*k, verif::frag_entry_parts(v)))
            .collect();
        // statistics of blob files of the version must survive; entries of files that already
        // left the version are not part of the property (they are the subject of a known finding)
        if let Some(g) = self.gc_before_reopen.as_mut() {
            g.retain(|k, _| listed.contains(k));
        }
        if Some(&gc_now) != self.gc_before_reopen.as_ref() {
            return Err(Violation::new(
                &["C09", "C04"],
                "gc-stats-changed-by-reopen",
                format!("blob gc stats {:?} before reopen, {gc_now:?} after", self.gc_before_reopen),
            ));
        }
        // C04: id counters above everything present
        let v = self.tree().current_version();
        let max_t = v.iter_tables().map(lsm_tree::Table::id).max();
        if let Some(mt) = max_t {
            if self.tree().next_table_id() <= mt {
                return Err(Violation::new(&["C04"], "table-id-counter", format!("next table id {} <= highest recovered table id {mt}", self.tree().next_table_id())));
            }
        }
        // strict directory audit (C20 "always after a reopen")
        {
            let hist = self.tree().get_version_history_lock().verif_history();
            let f = audit::audit_dir(&self.dir, &hist, &self.orphans, true, "reopen");
            drop(hist);
            if let Some(f) = f.first() {
                return Err(Violation::from_finding(f));
            }
        }
        let r = self.audit_current(true);
        self.soft(r)?;
        self.battery(true, &[])
    }

    fn after_compaction(&mut self) -> Result<(), Violation> {
        let Some(f) = self.filter.clone() else { return Ok(()) };
        let events: Vec<FilterEvent> = std::mem::take(&mut *f.log.lock().unwrap_or_else(|e| e.into_inner()));
        if events.is_empty() {
            return Ok(());
        }
        bump(&mut self.counters, "filter:events", events.len() as u64);
        let (_, seq) = self.latest();
        let changing = events.iter().any(|e| e.verdict != FVerdict::Keep);
        if !changing {
            return Ok(());
        }
        let thr = self.cfg.kv.as_ref().map(|k| k.threshold as usize);
        let w = self.model.fork(seq);
        for e in &events {
            bump(&mut self.counters, &format!("filter:verdict:{}", match &e.verdict {
                FVerdict::Keep => "keep",
                FVerdict::Remove => "remove",
                FVerdict::RemoveWeak => "remove_weak",
                FVerdict::Replace(_) => "replace",
                FVerdict::Destroy => "destroy",
            }), 1);
            if let (Some(t), FVerdict::Replace(nv)) = (thr, &e.verdict) {
                let crosses = (e.value.len() >= t) != (nv.len() >= t);
                if crosses {
                    bump(&mut self.counters, "filter:replace_crossing_threshold", 1);
                }
            }
            let Some(es) = w.map.get_mut(&e.key) else {
                return Err(Violation::new(&["C17"], "filter-unknown-entry", format!("filter was shown key {:?} which holds no entry in the model", esc(&e.key))));
            };
            let pos = es.iter().rposition(|x| matches!(&x.kind, MKind::Put(v) if v == &e.value));
            let Some(pos) = pos else {
                return Err(Violation::new(
                    &["C17"],
                    "filter-unknown-entry",
                    format!("filter was shown ({:?}, {:?}) which is not a value the model knows for that key", esc(&e.key), esc(&e.value[..e.value.len().min(24)])),
                ));
            };
            match &e.verdict {
                FVerdict::Keep => {}
                FVerdict::Remove => es[pos].kind = MKind::Del,
                FVerdict::RemoveWeak => es[pos].kind = MKind::WeakDel,
                FVerdict::Replace(nv) => es[pos].kind = MKind::Put(nv.clone()),
                FVerdict::Destroy => {
                    es.remove(pos);
                }
            }
        }
        self.ctx_tags = vec!["C17"];
        self.ctx_name = format!("{}+filter", self.ctx_name);
        Ok(())
    }

    fn fifo_compact(&mut self, op: &Op, limit_permille: u32, ttl: Option<u64>, wm: u16) -> Result<(), Violation> {
        let v = self.tree().current_version();
        let size = self.tree().disk_space();
        let now = hooks::now_ns();
        let before: Vec<(u64, u128)> = v.iter_tables().map(|t| (t.id(), u128::from(t.metadata.created_at))).collect();
        // which keys live in which table (append-only: exactly one table per key)
        let mut keys_of: BTreeMap<u64, Vec<Key>> = BTreeMap::new();
        for t in v.iter_tables() {
            let s = audit::summarize_table(t);
            keys_of.insert(t.id(), s.keys.keys().cloned().collect());
        }
        drop(v);
        let limit = if limit_permille >= 1_000_000 { u64::MAX } else { (u128::from(size) * u128::from(limit_permille) / 1000) as u64 };
        let t = self.watermark(wm);
        let vid_before = self.latest().0;
        self.tree()
            .compact(Arc::new(lsm_tree::compaction::Fifo::new(limit, ttl)), t)
            .map_err(|e| self.op_err(op, "compact(fifo)", &e))?;
        let (vid, seq) = self.latest();
        let after: BTreeSet<u64> = self.table_ids();
        let removed: Vec<(u64, u128)> = before.iter().filter(|(id, _)| !after.contains(id)).copied().collect();
        let retained: Vec<(u64, u128)> = before.iter().filter(|(id, _)| after.contains(id)).copied().collect();
        bump(&mut self.counters, "fifo:compactions", 1);
        bump(&mut self.counters, "fifo:tables_removed", removed.len() as u64);

        let age_ns = |created: u128| u128::from(now).saturating_sub(created);
        let ttl_ns = ttl.filter(|s| *s > 0).map(|s| u128::from(s) * 1_000_000_000);
        // definitely expired / definitely not expired (the exact boundary is left to the implementation)
        let surely_fresh = |c: u128| ttl_ns.is_none_or(|t| age_ns(c) < t);
        let tags = self.blame(&["C19"]);
        for (rid, rc) in &removed {
            for (kid, kc) in &retained {
                if rc > kc && surely_fresh(*rc) {
                    return Err(Violation::new(
                        &tags,
                        "fifo-removed-newer-than-retained",
                        format!("FIFO(limit={limit}, ttl={ttl:?}) removed table {rid} (created {rc}) although older table {kid} (created {kc}) was retained and {rid} had not exceeded the TTL"),
                    ));
                }
            }
        }
        let any_maybe_expired = before.iter().any(|(_, c)| !surely_fresh(*c));
        if !removed.is_empty() && size <= limit && !any_maybe_expired {
            return Err(Violation::new(
                &tags,
                "fifo-removed-within-limits",
                format!("FIFO(limit={limit}, ttl={ttl:?}) removed {removed:?} although size {size} <= limit and nothing exceeded the TTL"),
            ));
        }
        if size <= limit && !any_maybe_expired {
            bump(&mut self.counters, "fifo:within_limits_cases", 1);
        }
        if vid != vid_before && !removed.is_empty() {
            let mut gone: Vec<Key> = vec![];
            for (rid, _) in &removed {
                gone.extend(keys_of.get(rid).cloned().unwrap_or_default());
            }
            self.model.drop_keys(seq, &gone);
        }
        self.set_ctx(&["C19"], "fifo");
        self.post_structural()
    }

    // -----------------------------------------------------------------------------------------
    // monitors run after ops

    /// Protocol soundness (C02): a snapshot is the visible counter, every later write draws from the seqno counter -
    /// the visible counter may therefore never run ahead of the seqno counter, or the next write lands below a
    /// snapshot that was opened before it.
    fn counter_invariant(&mut self) -> Result<(), Violation> {
        let (c, v) = (self.seqno.get(), self.visible.get());
        if c < v {
            return Err(Violation::new(
                &self.blame(&["C02"]),
                "seqno-counter-behind-visible",
                format!("the visible counter is {v} but the next sequence number to be handed out is {c}: the next write will be visible to a snapshot opened now ({})", self.ctx_name),
            ));
        }
        Ok(())
    }

    /// C20 "nothing live is ever deleted", checked where the damage is done rather than where it shows: a table or blob
    /// file named by the CURRENT version must not carry the deletion mark (its file would go with the last handle,
    /// i.e. at the latest when the tree is closed, while the durable version still names it).
    pub fn live_files_not_marked(&mut self) -> Result<(), Violation> {
        let v = self.tree().current_version();
        bump(&mut self.counters, "deletion_mark_audits", 1);
        for t in v.iter_tables() {
            if verif::table_marked_deleted(t) {
                return Err(Violation::new(&["C20"], "live-table-marked-deleted", format!("table {} is named by the current version v{} but is marked for deletion ({})", t.id(), v.id(), self.ctx_name)));
            }
        }
        for bf in v.blob_files.iter() {
            if verif::blob_file_marked_deleted(bf) {
                return Err(Violation::new(&["C20"], "live-blob-file-marked-deleted", format!("blob file {} is named by the current version v{} but is marked for deletion ({})", bf.id(), v.id(), self.ctx_name)));
            }
        }
        Ok(())
    }

    fn post_write(&mut self, touched: &[Key]) -> Result<(), Violation> {
        let r = self.counter_invariant();
        self.soft(r)?;
        let r = self.seqno_marks();
        self.soft(r)?;
        self.battery(false, touched)
    }

    fn post_structural(&mut self) -> Result<(), Violation> {
        let r = self.counter_invariant();
        self.soft(r)?;
        let r = self.audit_installs();
        self.soft(r)?;
        let r = self.snapshot_version_invariant();
        self.soft(r)?;
        let r = self.dir_audit();
        self.soft(r)?;
        let r = self.live_files_not_marked();
        self.soft(r)?;
        let r = self.seqno_marks();
        self.soft(r)?;
        self.record_layout();
        self.battery(true, &[])
    }

    /// Physical entries of the single-delete keys: table contents plus memtable entries.
    fn physical_w_entries(&mut self) -> BTreeMap<Key, Vec<(u64, u8, u64)>> {
        let mut out: BTreeMap<Key, Vec<(u64, u8, u64)>> = BTreeMap::new();
        let wkeys: BTreeSet<Key> = self.uni.of_class(Class::W).into_iter().map(|i| self.uni.keys[i].clone()).collect();
        if wkeys.is_empty() {
            return out;
        }
        let v = self.tree().current_version();
        for table in v.iter_tables() {
            let key = (table.id(), table.checksum().into_u128(), table.global_seqno());
            let s = if let Some(s) = self.cache.tables.get(&key) {
                s.clone()
            } else {
                self.cache.tables_scanned += 1;
                let s = Arc::new(audit::summarize_table(table));
                self.cache.tables.insert(key, s.clone());
                s
            };
            for (k, es) in &s.entries {
                if wkeys.contains(k) {
                    out.entry(k.clone()).or_default().extend(es.iter().map(|(sq, ty)| (*sq, *ty, table.id())));
                }
            }
        }
        drop(v);
        for (k, es) in &self.model.newest().map {
            if wkeys.contains(k) {
                for e in es.iter().filter(|e| e.loc != Loc::Persisted) {
                    let ty = match e.kind {
                        MKind::Put(_) => 0,
                        MKind::Del => 1,
                        MKind::WeakDel => 2,
                    };
                    out.entry(k.clone()).or_default().push((e.seqno, ty, u64::MAX));
                }
            }
        }
        out
    }

    fn record_layout(&mut self) {
        let t = self.tree();
        let v = t.current_version();
        let sealed = t.sealed_memtable_count();
        let l0 = v.level(0).map_or(0, |l| l.run_count());
        let levels: usize = v.iter_levels().filter(|l| !l.is_empty()).count();
        let max_run = v.iter_levels().flat_map(|l| l.iter()).map(|r| r.len()).max().unwrap_or(0);
        let sig = format!("sealed={} l0runs={} levels={} maxrun={} blobs={}", sealed.min(3), l0.min(4), levels, max_run.min(4), v.blob_file_count().min(3));
        drop(v);
        self.layouts.insert(sig);
    }

    /// Audits every version installed since the last call (C07, C09, C08 dangling pointers).
    fn audit_installs(&mut self) -> Result<(), Violation> {
        let installs = hooks::drain_installs();
        let is_blob = self.is_blob();
        for (path, sv) in installs {
            if path != self.dir {
                // belongs to another instance of a lock-step group: give it back
                hooks::INSTALLS.lock().unwrap_or_else(|e| e.into_inner()).push((path, sv));
                continue;
            }
            self.installs_seen += 1;
            let (version, _, _, _) = verif::super_version_parts(&sv);
            let (findings, stats) = audit::audit_version(&mut self.cache, &self.dir, &version, is_blob, true);
            bump(&mut self.counters, "versions_audited", 1);
            bump(&mut self.counters, "tables_in_audited_versions", stats.tables as u64);
            if stats.max_tables_per_run > 1 {
                bump(&mut self.counters, "versions_with_multi_table_runs", 1);
            }
            if stats.l0_runs > 1 {
                bump(&mut self.counters, "versions_with_overlapping_l0_runs", 1);
            }
            if stats.levels_populated > 1 {
                bump(&mut self.counters, "versions_with_several_levels", 1);
            }
            if stats.blob_files > 0 {
                bump(&mut self.counters, "versions_with_blob_files", 1);
            }
            // C09 bounded progress: an unreferenced blob file leaves the version at the next
            // merge / drop version change after its last reference disappeared
            let drop_capable = self.last_table_ids.as_ref().is_some_and(|prev| prev.difference(&stats.table_ids).next().is_some());
            let mut age = std::mem::take(&mut self.unref_age);
            age.retain(|id, _| stats.unreferenced_blob_files.contains(id));
            let mut stuck = None;
            for id in &stats.unreferenced_blob_files {
                let a = age.entry(*id).or_insert(0);
                if drop_capable {
                    *a += 1;
                }
                if *a >= 2 {
                    stuck = Some(*id);
                }
            }
            self.unref_age = age;
            self.last_table_ids = Some(stats.table_ids.clone());
            if !stats.unreferenced_blob_files.is_empty() {
                bump(&mut self.counters, "versions_listing_unreferenced_blob_file", 1);
            }
            let vid = version.id();
            self.handle_version_findings(&version, &findings, stats.expected_stale_on_disk)?;
            drop(version);
            drop(sv);
            if let Some(id) = stuck {
                return Err(Violation::new(
                    &["C09"],
                    "unreferenced-blob-file-retained",
                    format!("v{vid}: blob file {id} has had no reference for 2 merge/drop version changes but is still listed"),
                ));
            }
        }
        Ok(())
    }

    /// Reports audit findings for one version (known findings are recorded, the rest is fatal)
    /// and checks `stale_blob_bytes()` when the version is the current one.
    fn handle_version_findings(&mut self, version: &verif::Version, findings: &[Finding], expected_stale_on_disk: u64) -> Result<(), Violation> {
        let is_blob = self.is_blob();
        let vid = version.id();
        // which op removed a blob file from the version?
        let now_blobs: BTreeSet<u64> = version.blob_files.iter().map(lsm_tree::BlobFile::id).collect();
            for gone in self.last_blob_ids.difference(&now_blobs) {
            self.blob_left_by.insert(*gone, self.ctx_name.clone());
        }
        // coverage: blob files created by a compaction (relocation output or filter replacements)
        let is_compaction = ["leveled", "major", "pull_down"].iter().any(|p| self.ctx_name.starts_with(p));
        if is_compaction {
            let fresh = now_blobs.difference(&self.last_blob_ids).count() as u64;
            if fresh > 0 {
                bump(&mut self.counters, "blob:compactions_creating_blob_files", 1);
                bump(&mut self.counters, "blob:blob_files_created_by_compaction", fresh);
                if fresh > 1 {
                    bump(&mut self.counters, "blob:compactions_creating_several_blob_files", 1);
                }
            }
            let gone = self.last_blob_ids.difference(&now_blobs).count() as u64;
            if gone > 0 {
                bump(&mut self.counters, "blob:blob_files_dropped_by_compaction", gone);
            }
        }
        self.last_blob_ids = now_blobs;
        let unlisted: Vec<(u64, u64)> = version
            .gc_stats()
            .iter()
            .filter(|(id, _)| !self.last_blob_ids.contains(id))
            .map(|(id, e)| (*id, verif::frag_entry_parts(e).2))
            .collect();
        for f in findings {
            let mut v = Violation::from_finding(f);
            if v.sig == "gc-stats-for-unlisted-file" {
                let by: BTreeSet<String> = unlisted.iter().map(|(id, _)| self.blob_left_by.get(id).cloned().unwrap_or_else(|| "unknown".into())).collect();
                v.sig = format!("gc-stats-for-unlisted-file:file-left-by:{}", by.into_iter().collect::<Vec<_>>().join("+"));
            }
            self.tolerate(v)?;
        }
        if is_blob && self.tree().current_version().id() == vid {
            let rep = self.tree().stale_blob_bytes();
            bump(&mut self.counters, "stale_blob_bytes_checks", 1);
            if rep != expected_stale_on_disk {
                let extra: u64 = unlisted.iter().map(|(_, b)| *b).sum();
                let sig = if !unlisted.is_empty() && rep == expected_stale_on_disk + extra {
                    let by: BTreeSet<String> = unlisted.iter().map(|(id, _)| self.blob_left_by.get(id).cloned().unwrap_or_else(|| "unknown".into())).collect();
                    format!("stale-blob-bytes:counts-unlisted-file-left-by:{}", by.into_iter().collect::<Vec<_>>().join("+"))
                } else {
                    "stale-blob-bytes".to_string()
                };
                self.tolerate(Violation::new(
                    &["C09"],
                    sig,
                    format!("v{vid}: stale_blob_bytes()={rep} but the unreferenced blobs of the listed blob files occupy {} bytes", expected_stale_on_disk),
                ))?;
            }
        }
        Ok(())
    }

    fn audit_current(&mut self, check_manifest: bool) -> Result<(), Violation> {
        let v = self.tree().current_version();
        let is_blob = self.is_blob();
        let (findings, stats) = audit::audit_version(&mut self.cache, &self.dir, &v, is_blob, check_manifest);
        bump(&mut self.counters, "versions_audited", 1);
        self.last_table_ids = Some(stats.table_ids.clone());
        self.handle_version_findings(&v, &findings, stats.expected_stale_on_disk)?;
        drop(v);
        Ok(())
    }

    /// C02 mechanism invariant: a held snapshot keeps resolving to the version it was opened on.
    fn snapshot_version_invariant(&mut self) -> Result<(), Violation> {
        if self.detached {
            // every snapshot resolves to the latest version by construction
            return Ok(());
        }
        let lock = self.tree().get_version_history_lock();
        for s in self.snaps.iter().flatten() {
            let sv = lock.get_version_for_snapshot(s.seq);
            let id = verif::super_version_parts(&sv).0.id();
            if id != s.version_id {
                return Err(Violation::new(
                    &["C02"],
                    "snapshot-version-changed",
                    format!("snapshot {} was opened on version {} but now resolves to version {id}", s.seq, s.version_id),
                ));
            }
        }
        Ok(())
    }

    fn dir_audit(&mut self) -> Result<(), Violation> {
        let mut hist = self.tree().get_version_history_lock().verif_history();
        // a held scan pins the super version it reads from: its files are legitimately on disk,
        // and they must not be deleted under it (the current version stays last in the list)
        for h in self.iters.iter().flatten() {
            hist.insert(0, h.pinned.clone());
        }
        let ctx = if self.cleared_since_open { "after-clear" } else { "normal" };
        let findings = audit::audit_dir(&self.dir, &hist, &self.orphans, false, ctx);
        bump(&mut self.counters, "dir_audits", 1);
        bump(&mut self.counters, "retained_versions_seen", hist.len() as u64);
        drop(hist);
        for f in &findings {
            self.tolerate(Violation::from_finding(f))?;
        }
        Ok(())
    }

    /// C18: reported high-water marks equal what is stored.
    fn seqno_marks(&mut self) -> Result<(), Violation> {
        let t = self.tree().clone();
        let v = t.current_version();
        let mut stored: Option<u64> = None;
        for table in v.iter_tables() {
            let key = (table.id(), table.checksum().into_u128(), table.global_seqno());
            let s = if let Some(s) = self.cache.tables.get(&key) {
                s.clone()
            } else {
                self.cache.tables_scanned += 1;
                let s = Arc::new(audit::summarize_table(table));
                self.cache.tables.insert(key, s.clone());
                s
            };
            if s.n_items > 0 {
                stored = Some(stored.map_or(s.seq_max, |m: u64| m.max(s.seq_max)));
            }
        }
        drop(v);
        let rep = t.get_highest_persisted_seqno();
        bump(&mut self.counters, "seqno_mark_checks", 1);
        if rep != stored {
            return Err(Violation::new(
                &["C18"],
                "persisted-seqno",
                format!("get_highest_persisted_seqno()={rep:?} but the largest seqno stored in table files is {stored:?} ({})", self.ctx_name),
            ));
        }
        let mem = t.get_highest_memtable_seqno();
        let exp = self.model.highest_memtable_seqno();
        if mem != exp {
            return Err(Violation::new(
                &["C18"],
                "memtable-seqno",
                format!("get_highest_memtable_seqno()={mem:?} but the largest seqno in memtables is {exp:?} ({})", self.ctx_name),
            ));
        }
        let all = t.get_highest_seqno();
        if all != mem.max(stored) {
            return Err(Violation::new(&["C18"], "highest-seqno", format!("get_highest_seqno()={all:?} != max({mem:?},{stored:?})")));
        }
        Ok(())
    }

    // -----------------------------------------------------------------------------------------
    // observation battery

    fn snap_sels(&self) -> Vec<SnapSel> {
        let mut v = vec![SnapSel::Max];
        let vis = self.visible.get();
        if vis > 0 {
            v.push(SnapSel::Visible(vis));
        }
        for (i, s) in self.snaps.iter().enumerate() {
            if let Some(s) = s {
                v.push(SnapSel::Live(i, s.seq));
            }
        }
        v
    }

    pub fn battery(&mut self, full: bool, touched: &[Key]) -> Result<(), Violation> {
        if full {
            let sels = self.snap_sels();
            self.battery_for(&sels, true)
        } else {
            // after a plain write: the touched keys at the newest snapshots, plus one other key
            let mut keys: Vec<Key> = touched.to_vec();
            let all = self.all_keys();
            if !all.is_empty() {
                keys.push(all[self.obs.usize(all.len())].clone());
            }
            let vis = self.visible.get();
            for k in &keys {
                let r = self.check_point(k, SnapSel::Max);
                self.soft(r)?;
                if vis > 0 {
                    let r = self.check_point(k, SnapSel::Visible(vis));
                    self.soft(r)?;
                }
            }
            // an older live snapshot must not see the new write
            if let Some((i, s)) = self.snaps.iter().enumerate().find_map(|(i, s)| s.map(|s| (i, s.seq))) {
                for k in touched {
                    let r = self.check_point(k, SnapSel::Live(i, s));
                    self.soft(r)?;
                }
            }
            Ok(())
        }
    }

    fn battery_for(&mut self, sels: &[SnapSel], scans: bool) -> Result<(), Violation> {
        let keys = self.all_keys();
        for &sel in sels {
            for k in &keys {
                let r = self.check_point(k, sel);
                self.soft(r)?;
            }
            // absent probes
            for probe in [&b"\x00"[..], b"zzzz-absent", b"g", b"\xff\xff\xff"] {
                if !keys.iter().any(|k| k.as_slice() == probe) {
                    let r = self.check_point(probe, sel);
                    self.soft(r)?;
                }
            }
            if scans {
                let r = self.full_scans(sel);
                self.soft(r)?;
                for _ in 0..self.scan_cases {
                    let r = self.random_scan_case(sel);
                    self.soft(r)?;
                }
            }
        }
        Ok(())
    }

    fn read_tags(&self, key: &[u8], sel: SnapSel, scan: bool) -> Vec<&'static str> {
        let mut base: Vec<&'static str> = vec![];
        if scan {
            base.push("C03");
        }
        match sel {
            SnapSel::Live(..) => base.push("C02"),
            _ => {
                if !scan {
                    base.push("C01");
                }
            }
        }
        if let Some(i) = self.uni.keys.iter().position(|k| k.as_slice() == key) {
            if self.uni.class[i] == Class::W {
                base.push("C13");
            }
        }
        self.blame(&base)
    }

    pub fn check_point(&mut self, key: &[u8], sel: SnapSel) -> Result<(), Violation> {
        let s = sel.seq();
        let exp = self.model.read(key, s);
        let t = self.tree().clone();
        let got = t.get(key, s);
        let contains = t.contains_key(key, s);
        let size = t.size_of(key, s);
        let internal = t.get_internal_entry(key, s);
        bump(&mut self.counters, "point_comparisons", 4);
        let tags = self.read_tags(key, sel, false);
        let ctx_name = self.ctx_name.clone();
        let fail = move |what: &str, detail: String| -> Violation {
            Violation::new(
                &tags,
                format!("point:{what}:{}", sel.kind()),
                format!("key {:?} at {} ({}): {detail}; last structural op: {}", esc(key), sel.describe(), what, ctx_name),
            )
        };
        let (got, contains, size, internal) = match (got, contains, size, internal) {
            (Ok(a), Ok(b), Ok(c), Ok(d)) => (a, b, c, d),
            (a, b, c, d) => {
                return Err(fail(
                    "error",
                    format!("a read returned Err in a fault-free run: get={:?} contains_key={:?} size_of={:?} internal={:?}", a.err(), b.err(), c.err(), d.err()),
                ))
            }
        };
        // C02 stability, independent of the model: a held snapshot answers what it answered when it was opened
        if let SnapSel::Live(slot, _) = sel {
            if let Some(Some(view)) = self.snap_views.get(slot) {
                if let Some(first) = view.get(key) {
                    bump(&mut self.counters, "snapshot_stability_comparisons", 1);
                    let now = got.as_ref().map(|v| v.to_vec());
                    if *first != now && exp != Expect::Unknown {
                        let show = |x: &Option<Vec<u8>>| x.as_ref().map(|v| esc(&v[..v.len().min(24)]));
                        return Err(fail(
                            "snapshot-view-changed",
                            format!("the snapshot answered {:?} when it was opened and answers {:?} now ({})", show(first), show(&now), now.as_ref().map_or(String::new(), |v| self.identify(key, v))),
                        ));
                    }
                }
            }
        }
        match exp {
            Expect::Unknown => {
                bump(&mut self.counters, "point_unknown_skipped", 1);
                Ok(())
            }
            Expect::Exact(None) => {
                if let Some(v) = got {
                    let which = self.identify(key, &v);
                    // How many weak deletes does the model hold above the write this value belongs to?
                    let weak_above = self
                        .model
                        .world_for(s)
                        .map
                        .get(key)
                        .and_then(|es| es.iter().position(|e| matches!(&e.kind, MKind::Put(x) if x.as_slice() == v.as_ref())).map(|p| es[p + 1..].iter().filter(|e| e.kind == MKind::WeakDel && e.seqno < s).count()))
                        .unwrap_or(0);
                    // Known-finding shape: an OLDER generation of the key (two or more weak deletes
                    // above it) resurfaces from a table the op did not rewrite. If the resurfaced
                    // entry was part of the op's input (it sits in a new table now), correct code
                    // would have drained it together with the newer versions: a different violation.
                    let a_seq = self
                        .model
                        .world_for(s)
                        .map
                        .get(key)
                        .and_then(|es| es.iter().find(|e| matches!(&e.kind, MKind::Put(x) if x.as_slice() == v.as_ref())).map(|e| e.seqno));
                    let phys_now = self.physical_w_entries();
                    let phys_dbg = format!("physical (seqno,type,table) before the op: {:?}, now: {:?}", self.phys_prev.get(key), phys_now.get(key));
                    let table_of = |m: &BTreeMap<Key, Vec<(u64, u8, u64)>>, a: u64| m.get(key).and_then(|es| es.iter().find(|e| e.0 == a).map(|e| e.2));
                    let untouched = a_seq.is_some_and(|a| {
                        let before = table_of(&self.phys_prev, a);
                        before.is_some() && before != Some(u64::MAX) && before == table_of(&phys_now, a)
                    });
                    let what = if weak_above >= 2 && untouched { "resurrected-older-generation-from-untouched-table" } else { "resurrected" };
                    let viol = fail(what, format!("expected absent, get returned {:?} ({which}; {weak_above} weak delete(s) above it; {phys_dbg})", esc(&v[..v.len().min(32)])));
                    // a listed known finding is recorded; the key is excluded from further checks
                    self.tolerate(viol)?;
                    self.model.poison(key);
                    return Ok(());
                }
                if contains {
                    return Err(fail("contains_key", "expected absent, contains_key returned true".into()));
                }
                if size.is_some() {
                    return Err(fail("size_of", format!("expected absent, size_of returned {size:?}")));
                }
                if let Some(e) = internal {
                    return Err(fail("internal", format!("expected absent, get_internal_entry returned seqno {}", e.key.seqno)));
                }
                Ok(())
            }
            Expect::Exact(Some((seq, val))) => {
                match &got {
                    None => return Err(fail("lost", format!("expected value {:?} (seqno {seq}), get returned None", esc(&val[..val.len().min(32)])))),
                    Some(v) if v.as_ref() != val.as_slice() => {
                        let which = self.identify(key, v);
                        return Err(fail(
                            "wrong-value",
                            format!("expected {:?} (seqno {seq}), get returned {:?} ({which})", esc(&val[..val.len().min(32)]), esc(&v[..v.len().min(32)])),
                        ));
                    }
                    _ => {}
                }
                if !contains {
                    return Err(fail("contains_key", "expected present, contains_key returned false".into()));
                }
                if size != Some(val.len() as u32) {
                    return Err(fail("size_of", format!("expected size {}, size_of returned {size:?}", val.len())));
                }
                match internal {
                    None => return Err(fail("internal", "expected present, get_internal_entry returned None".into())),
                    Some(e) => {
                        if e.key.seqno != seq {
                            return Err(fail("seqno", format!("expected seqno {seq}, stored entry has seqno {}", e.key.seqno)));
                        }
                        if !matches!(e.key.value_type, ValueType::Value | ValueType::Indirection) {
                            return Err(fail("type", format!("unexpected value type {:?}", e.key.value_type)));
                        }
                    }
                }
                Ok(())
            }
        }
    }

    /// Which write does an unexpected value belong to? (values are unique)
    fn identify(&self, key: &[u8], v: &[u8]) -> String {
        for w in self.model.worlds.iter().rev() {
            if let Some(es) = w.map.get(key) {
                if let Some(e) = es.iter().find(|e| matches!(&e.kind, MKind::Put(x) if x.as_slice() == v)) {
                    return format!("that is the write with seqno {}", e.seqno);
                }
            }
        }
        "a value never written for this key".into()
    }

    fn collect(&self, it: impl Iterator<Item = lsm_tree::IterGuardImpl>) -> Result<Vec<(Key, Vec<u8>)>, String> {
        let mut out = vec![];
        for g in it {
            match g.into_inner() {
                Ok((k, v)) => out.push((k.to_vec(), v.to_vec())),
                Err(e) => return Err(format!("{e:?}")),
            }
        }
        Ok(out)
    }

    fn scan_mismatch(&self, sel: SnapSel, what: &str, detail: String, key_hint: &[u8]) -> Violation {
        let tags = self.read_tags(key_hint, sel, true);
        Violation::new(
            &tags,
            format!("scan:{what}:{}", sel.kind()),
            format!("{what} at {}: {detail}; last structural op: {}", sel.describe(), self.ctx_name),
        )
    }

    fn diff(exp: &[(Key, Vec<u8>)], got: &[(Key, Vec<u8>)]) -> (String, Key) {
        for i in 0..exp.len().max(got.len()) {
            match (exp.get(i), got.get(i)) {
                (Some(a), Some(b)) if a == b => {}
                (a, b) => {
                    let show = |x: Option<&(Key, Vec<u8>)>| x.map(|(k, v)| format!("{:?}={:?}", esc(k), esc(&v[..v.len().min(16)]))).unwrap_or("<end>".into());
                    let hint = a.or(b).map(|x| x.0.clone()).unwrap_or_default();
                    return (format!("position {i}: expected {} got {} (expected {} items, got {})", show(a), show(b), exp.len(), got.len()), hint);
                }
            }
        }
        ("identical".into(), vec![])
    }

    fn full_scans(&mut self, sel: SnapSel) -> Result<(), Violation> {
        let s = sel.seq();
        let (exp, unknown) = self.model.world_for(s).scan(s, &Bound::Unbounded, &Bound::Unbounded);
        let unk: BTreeSet<&Key> = unknown.iter().collect();
        let strip = |v: Vec<(Key, Vec<u8>)>| -> Vec<(Key, Vec<u8>)> { v.into_iter().filter(|(k, _)| !unk.contains(k)).collect() };
        let t = self.tree().clone();

        let fwd = self.collect(t.iter(s, None)).map_err(|e| self.scan_mismatch(sel, "iter-error", e, b""))?;
        let fwd_raw_len = fwd.len();
        let fwd = strip(fwd);
        bump(&mut self.counters, "scan_comparisons", 1);
        if fwd != exp {
            let (d, h) = Self::diff(&exp, &fwd);
            return Err(self.scan_mismatch(sel, "forward", d, &h));
        }
        // C02 stability for scans, independent of the model: the full scan of a held snapshot equals the view recorded
        // when the snapshot was opened
        if let SnapSel::Live(slot, _) = sel {
            if let (Some(Some(view)), true) = (self.snap_views.get(slot), unknown.is_empty()) {
                let first: Vec<(Key, Vec<u8>)> = view.iter().filter_map(|(k, v)| v.as_ref().map(|v| (k.clone(), v.clone()))).collect();
                let keys_known: BTreeSet<&Key> = view.keys().collect();
                let now: Vec<(Key, Vec<u8>)> = fwd.iter().filter(|(k, _)| keys_known.contains(k)).cloned().collect();
                bump(&mut self.counters, "snapshot_stability_comparisons", 1);
                if first != now {
                    let (d, h) = Self::diff(&first, &now);
                    return Err(self.scan_mismatch(sel, "snapshot-view-changed", format!("the scan differs from what this snapshot answered when it was opened: {d}"), &h));
                }
            }
        }
        let mut rev = strip(self.collect(t.iter(s, None).rev()).map_err(|e| self.scan_mismatch(sel, "iter-error", e, b""))?);
        rev.reverse();
        bump(&mut self.counters, "scan_comparisons", 1);
        if rev != exp {
            let (d, h) = Self::diff(&exp, &rev);
            return Err(self.scan_mismatch(sel, "reverse", d, &h));
        }
        // the other ways of consuming a scan item (key / size / value / conditional access) must agree with into_inner
        if unknown.is_empty() && self.obs.chance(1, 3) {
            let rot = self.obs.below(5) as usize;
            let back = self.obs.chance(1, 3);
            let it: Box<dyn Iterator<Item = lsm_tree::IterGuardImpl>> = if back { Box::new(t.iter(s, None).rev()) } else { Box::new(t.iter(s, None)) };
            let mut n = 0usize;
            for (i, g) in it.enumerate() {
                n += 1;
                let Some((ek, ev)) = (if back { exp.len().checked_sub(i + 1).and_then(|j| exp.get(j)) } else { exp.get(i) }) else {
                    return Err(self.scan_mismatch(sel, "guard-api", format!("scan yields more than the {} expected items", exp.len()), b""));
                };
                let bad = |what: &str, got: String| format!("item {i} ({:?}) consumed through {what}: got {got}, expected key {:?} value of {} bytes", esc(ek), esc(ek), ev.len());
                let r: Result<(), String> = match (i + rot) % 5 {
                    0 => g.key().map_err(|e| format!("{e:?}")).and_then(|k| if k.as_ref() == ek.as_slice() { Ok(()) } else { Err(bad("key()", format!("{:?}", esc(&k)))) }),
                    1 => g.size().map_err(|e| format!("{e:?}")).and_then(|z| if z as usize == ev.len() { Ok(()) } else { Err(bad("size()", format!("{z}"))) }),
                    2 => g.value().map_err(|e| format!("{e:?}")).and_then(|v| if v.as_ref() == ev.as_slice() { Ok(()) } else { Err(bad("value()", format!("{:?}", esc(&v[..v.len().min(16)])))) }),
                    3 => g.into_inner_if(|_| true).map_err(|e| format!("{e:?}")).and_then(|(k, v)| {
                        if k.as_ref() == ek.as_slice() && v.as_ref().map(|v| v.as_ref() == ev.as_slice()) == Some(true) { Ok(()) } else { Err(bad("into_inner_if(true)", format!("{:?}/{:?}", esc(&k), v.map(|v| v.len())))) }
                    }),
                    _ => g.into_inner_if(|_| false).map_err(|e| format!("{e:?}")).and_then(|(k, v)| {
                        if k.as_ref() == ek.as_slice() && v.is_none() { Ok(()) } else { Err(bad("into_inner_if(false)", format!("{:?}/{:?}", esc(&k), v.map(|v| v.len())))) }
                    }),
                };
                if let Err(d) = r {
                    return Err(self.scan_mismatch(sel, "guard-api", d, ek));
                }
            }
            if n != exp.len() {
                return Err(self.scan_mismatch(sel, "guard-api", format!("scan yields {n} items, expected {}", exp.len()), b""));
            }
            bump(&mut self.counters, "scan_comparisons", 1);
            bump(&mut self.counters, "guard_api_scans", 1);
        }
        // len / is_empty / first / last
        let len = t.len(s, None).map_err(|e| self.scan_mismatch(sel, "len-error", format!("{e:?}"), b""))?;
        let lo = exp.len();
        let hi = exp.len() + unknown.len();
        if len < lo || len > hi || (unknown.is_empty() && len != fwd_raw_len) {
            return Err(self.scan_mismatch(sel, "len", format!("len()={len}, expected {lo}..={hi}"), b""));
        }
        let is_empty = t.is_empty(s, None).map_err(|e| self.scan_mismatch(sel, "is_empty-error", format!("{e:?}"), b""))?;
        if unknown.is_empty() && is_empty != exp.is_empty() {
            return Err(self.scan_mismatch(sel, "is_empty", format!("is_empty()={is_empty}, expected {}", exp.is_empty()), b""));
        }
        if unknown.is_empty() {
            let first = t.first_key_value(s, None).map(|g| g.into_inner());
            let last = t.last_key_value(s, None).map(|g| g.into_inner());
            let conv = |x: Option<lsm_tree::Result<(lsm_tree::UserKey, lsm_tree::UserValue)>>| -> Result<Option<(Key, Vec<u8>)>, String> {
                match x {
                    None => Ok(None),
                    Some(Ok((k, v))) => Ok(Some((k.to_vec(), v.to_vec()))),
                    Some(Err(e)) => Err(format!("{e:?}")),
                }
            };
            let first = conv(first).map_err(|e| self.scan_mismatch(sel, "first-error", e, b""))?;
            let last = conv(last).map_err(|e| self.scan_mismatch(sel, "last-error", e, b""))?;
            if first.as_ref() != exp.first() {
                return Err(self.scan_mismatch(sel, "first_key_value", format!("got {:?}, expected {:?}", first.map(|x| esc(&x.0)), exp.first().map(|x| esc(&x.0))), b""));
            }
            if last.as_ref() != exp.last() {
                return Err(self.scan_mismatch(sel, "last_key_value", format!("got {:?}, expected {:?}", last.map(|x| esc(&x.0)), exp.last().map(|x| esc(&x.0))), b""));
            }
        }
        bump(&mut self.counters, "scan_comparisons", 4);
        Ok(())
    }

    fn random_bound(&mut self, keys: &[Key], tables: &[(Key, Key)]) -> Bound<Key> {
        let incl = self.obs.chance(1, 2);
        let mk = |k: Key| if incl { Bound::Included(k) } else { Bound::Excluded(k) };
        match self.obs.below(12) {
            0 => Bound::Unbounded,
            1..=4 if !keys.is_empty() => {
                let k = keys[self.obs.usize(keys.len())].clone();
                let d = *self.obs.pick(&[-1i8, 0, 0, 1]);
                mk(shift_key(&k, d))
            }
            5..=7 if !tables.is_empty() => {
                let t = &tables[self.obs.usize(tables.len())];
                let k = if self.obs.chance(1, 2) { t.0.clone() } else { t.1.clone() };
                let d = *self.obs.pick(&[-1i8, 0, 0, 1]);
                mk(shift_key(&k, d))
            }
            8 => mk(vec![0xFF]),
            9 => mk(vec![0xFF, 0xFF]),
            10 => mk(vec![0]),
            _ => mk(b"h".to_vec()),
        }
    }

    /// One seeded scan case: random bounds or prefix, random next/next_back interleaving,
    /// optionally an overlay memtable.
    pub fn random_scan_case(&mut self, sel: SnapSel) -> Result<(), Violation> {
        let s = sel.seq();
        let keys = self.all_keys();
        let tables = self.table_ranges();
        let t = self.tree().clone();
        let use_prefix = self.obs.chance(1, 4);
        let overlay = self.obs.chance(1, 6);

        // overlay memtable: entries newer than anything in the tree shadow it key by key
        let mut overlay_entries: Vec<(Key, Option<Vec<u8>>)> = vec![];
        let ov = if overlay && !keys.is_empty() {
            let mt = Arc::new(lsm_tree::Memtable::new(u64::MAX - 1));
            let base = self.seqno.get() + 1_000_000;
            let n = self.obs.range(1, 4) as usize;
            let mut used = BTreeSet::new();
            for i in 0..n {
                let k = keys[self.obs.usize(keys.len())].clone();
                if !used.insert(k.clone()) {
                    continue;
                }
                if self.obs.chance(1, 3) {
                    mt.insert(lsm_tree::InternalValue::new_tombstone(k.clone(), base + i as u64));
                    overlay_entries.push((k, None));
                } else {
                    let v = format!("OVERLAY{i}").into_bytes();
                    mt.insert(lsm_tree::InternalValue::from_components(k.clone(), v.clone(), base + i as u64, ValueType::Value));
                    overlay_entries.push((k, Some(v)));
                }
            }
            Some((mt, SeqNo::MAX))
        } else {
            None
        };

        let mut prefix: Option<Key> = None;
        let (lo, hi, desc, it): (Bound<Key>, Bound<Key>, String, Box<dyn DoubleEndedIterator<Item = lsm_tree::IterGuardImpl> + Send>) = if use_prefix {
            let p: Key = match self.obs.below(8) {
                0 => vec![],
                1 => vec![0xFF],
                2 => vec![0xFF, 0xFF],
                _ if !keys.is_empty() => {
                    let k = &keys[self.obs.usize(keys.len())];
                    let n = self.obs.range(1, k.len() as u64) as usize;
                    k[..n].to_vec()
                }
                _ => b"g".to_vec(),
            };
            // model: exactly the keys starting with p (all of them are >= p)
            let lo = if p.is_empty() { Bound::Unbounded } else { Bound::Included(p.clone()) };
            let desc = format!("prefix({:?})", esc(&p));
            let it = t.prefix(p.clone(), s, ov.clone());
            prefix = Some(p);
            (lo, Bound::Unbounded, desc, it)
        } else {
            let lo = self.random_bound(&keys, &tables);
            let hi = self.random_bound(&keys, &tables);
            let desc = format!("range({:?},{:?})", bdesc(&lo), bdesc(&hi));
            let it = t.range::<Key, _>((lo.clone(), hi.clone()), s, ov.clone());
            (lo, hi, desc, it)
        };

        let (mut exp, mut unknown) = self.model.world_for(s).scan(s, &lo, &hi);
        // apply the overlay to the expectation
        for (k, v) in &overlay_entries {
            if !crate::model::in_bounds(k, &lo, &hi) {
                continue;
            }
            unknown.retain(|u| u != k);
            exp.retain(|(ek, _)| ek != k);
            if let Some(v) = v {
                exp.push((k.clone(), v.clone()));
            }
        }
        exp.sort();
        if let Some(p) = &prefix {
            exp.retain(|(k, _)| k.starts_with(p));
            unknown.retain(|k| k.starts_with(p));
        }
        let unk: BTreeSet<Key> = unknown.into_iter().collect();

        // consume with a seeded interleaving of next / next_back
        let mode = self.obs.below(4);
        let mut it = it;
        let mut front: Vec<(Key, Vec<u8>)> = vec![];
        let mut back: Vec<(Key, Vec<u8>)> = vec![];
        let mut bits = String::new();
        let mut steps = 0usize;
        loop {
            let take_front = match mode {
                0 => true,
                1 => false,
                2 => steps % 2 == 0,
                _ => self.obs.chance(1, 2),
            };
            steps += 1;
            let item = if take_front { it.next() } else { it.next_back() };
            if bits.len() < 64 {
                bits.push(if take_front { 'f' } else { 'b' });
            }
            match item {
                None => break,
                Some(g) => match g.into_inner() {
                    Ok((k, v)) => {
                        if take_front {
                            front.push((k.to_vec(), v.to_vec()));
                        } else {
                            back.push((k.to_vec(), v.to_vec()));
                        }
                    }
                    Err(e) => return Err(self.scan_mismatch(sel, "iter-error", format!("{desc}: {e:?}"), b"")),
                },
            }
            if steps > 100_000 {
                return Err(self.scan_mismatch(sel, "no-termination", format!("{desc}: iterator yielded more than 100000 items"), b""));
            }
        }
        // exhausted iterators stay exhausted from both ends
        if it.next().is_some() || it.next_back().is_some() {
            return Err(self.scan_mismatch(sel, "not-fused", format!("{desc} [{bits}]: iterator yielded an item after returning None"), b""));
        }
        back.reverse();
        let mut got = front;
        got.extend(back);
        let got: Vec<(Key, Vec<u8>)> = got.into_iter().filter(|(k, _)| !unk.contains(k)).collect();
        bump(&mut self.counters, "scan_comparisons", 1);
        bump(&mut self.counters, if use_prefix { "scan_cases:prefix" } else { "scan_cases:range" }, 1);
        if overlay {
            bump(&mut self.counters, "scan_cases:overlay", 1);
        }
        bump(&mut self.counters, &format!("scan_cases:mode{mode}"), 1);
        if got != exp {
            let (d, h) = Self::diff(&exp, &got);
            return Err(self.scan_mismatch(sel, if use_prefix { "prefix" } else { "range" }, format!("{desc} consumed as [{bits}]{}: {d}", if overlay { " with overlay" } else { "" }), &h));
        }
        Ok(())
    }

    /// Logical dump at a snapshot (for twin comparison): live pairs + unknown keys.
    pub fn logical_dump(&self, s: u64) -> Result<Vec<(Key, Vec<u8>)>, String> {
        self.collect(self.tree().iter(s, None))
    }

    pub fn describe_layout(&self) -> J {
        let v = self.tree().current_version();
        let mut levels = vec![];
        for l in v.iter_levels() {
            let runs: Vec<J> = l.iter().map(|r| J::Arr(r.iter().map(|t| J::i(t.id())).collect())).collect();
            levels.push(J::Arr(runs));
        }
        let mut o = J::obj();
        o.set("version", J::i(v.id()));
        o.set("levels", J::Arr(levels));
        o.set("blob_files", J::Arr(v.blob_files.iter().map(|b| J::i(b.id())).collect()));
        o.set("sealed", J::i(self.tree().sealed_memtable_count()));
        o
    }
}

fn bdesc(b: &Bound<Key>) -> String {
    match b {
        Bound::Unbounded => "..".into(),
        Bound::Included(k) => format!("={}", esc(k)),
        Bound::Excluded(k) => format!("!{}", esc(k)),
    }
}

fn op_tags(op: &Op) -> Vec<&'static str> {
    match op {
        Op::Reopen => vec!["C04"],
        Op::Ingest { .. } => vec!["C14"],
        Op::DropRange { .. } | Op::Clear => vec!["C15"],
        Op::Fifo { .. } | Op::FifoAppend { .. } => vec!["C19"],
        Op::WeakDel { .. } => vec!["C13"],
        Op::ScanBurst { .. } => vec!["C03"],
        _ => vec![],
    }
}

#[derive(Clone, Copy, Debug)]
pub enum SnapSel {
    Max,
    Visible(u64),
    Live(usize, u64),
}

impl SnapSel {
    pub fn seq(&self) -> u64 {
        match self {
            SnapSel::Max => u64::MAX,
            SnapSel::Visible(s) | SnapSel::Live(_, s) => *s,
        }
    }

    pub fn kind(&self) -> &'static str {
        match self {
            SnapSel::Max => "max",
            SnapSel::Visible(_) => "visible",
            SnapSel::Live(..) => "held-snapshot",
        }
    }

    pub fn describe(&self) -> String {
        match self {
            SnapSel::Max => "SeqNo::MAX".into(),
            SnapSel::Visible(s) => format!("newest snapshot {s}"),
            SnapSel::Live(i, s) => format!("held snapshot #{i} = {s}"),
        }
    }
}
