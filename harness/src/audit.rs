//! Structural auditors evaluated on the real data structures:
//!  * C07 — every published version is sound and matches its manifest,
//!  * C09 — blob garbage statistics are exact, nothing referenced is dropped,
//!  * C20 — directory contents vs. the retained version history.

use lsm_tree::coding::Decode;
use lsm_tree::verif::{self, SuperVersion, Version};
use lsm_tree::{BlobIndirection, Table, ValueType};
use std::collections::{BTreeMap, BTreeSet, HashMap};
use std::path::Path;

pub type Key = Vec<u8>;

#[derive(Clone, Debug)]
pub struct Finding {
    pub prop: &'static str,
    /// stable signature (for known-findings matching)
    pub sig: String,
    pub msg: String,
}

fn finding(prop: &'static str, sig: impl Into<String>, msg: impl Into<String>) -> Finding {
    Finding { prop, sig: sig.into(), msg: msg.into() }
}

#[derive(Clone, Debug, Default)]
pub struct TableSummary {
    pub id: u64,
    pub n_items: u64,
    pub n_tomb: u64,
    pub n_weak: u64,
    pub seq_min: u64,
    pub seq_max: u64,
    pub min_key: Key,
    pub max_key: Key,
    /// key -> (max seqno, min seqno) stored in this table
    pub keys: BTreeMap<Key, (u64, u64)>,
    /// key -> every stored (seqno, type) of that key
    pub entries: BTreeMap<Key, Vec<(u64, u8)>>,
    /// blob file id -> (count, value bytes, on-disk bytes) recounted from the stored pointers
    pub refs: BTreeMap<u64, (usize, u64, u64)>,
    pub problems: Vec<String>,
}

#[derive(Clone, Debug, Default)]
pub struct BlobSummary {
    pub items: u64,
    pub bytes: u64,
    pub on_disk: u64,
    pub problems: Vec<String>,
}

#[derive(Default)]
pub struct AuditCache {
    pub tables: HashMap<(u64, u128, u64), std::sync::Arc<TableSummary>>,
    pub blobs: HashMap<(u64, u128), std::sync::Arc<BlobSummary>>,
    pub tables_scanned: u64,
    pub blobs_scanned: u64,
}

fn vt(v: ValueType) -> u8 {
    match v {
        ValueType::Value => 0,
        ValueType::Tombstone => 1,
        ValueType::WeakTombstone => 2,
        ValueType::Indirection => 4,
    }
}

pub fn summarize_table(t: &Table) -> TableSummary {
    let mut s = TableSummary { id: t.id(), seq_min: u64::MAX, ..Default::default() };
    let mut prev: Option<(Key, u64)> = None;
    let mut seq: Vec<(Key, u64, u8, Vec<u8>)> = vec![];

    match t.scan() {
        Err(e) => s.problems.push(format!("scan() failed: {e:?}")),
        Ok(scanner) => {
            for item in scanner {
                let item = match item {
                    Ok(i) => i,
                    Err(e) => {
                        s.problems.push(format!("scan item error: {e:?}"));
                        break;
                    }
                };
                let k: Key = item.key.user_key.to_vec();
                let sq = item.key.seqno;
                let ty = vt(item.key.value_type);
                if let Some((pk, ps)) = &prev {
                    let ordered = pk < &k || (pk == &k && *ps > sq);
                    if !ordered {
                        s.problems.push(format!(
                            "items not strictly ordered by (key asc, seqno desc): {:?}@{} then {:?}@{}",
                            crate::json::esc(pk), ps, crate::json::esc(&k), sq
                        ));
                    }
                }
                prev = Some((k.clone(), sq));
                if s.n_items == 0 {
                    s.min_key = k.clone();
                }
                s.max_key = k.clone();
                s.n_items += 1;
                if ty == 1 || ty == 2 {
                    s.n_tomb += 1;
                }
                if ty == 2 {
                    s.n_weak += 1;
                }
                s.seq_min = s.seq_min.min(sq);
                s.seq_max = s.seq_max.max(sq);
                let e = s.keys.entry(k.clone()).or_insert((sq, sq));
                e.0 = e.0.max(sq);
                e.1 = e.1.min(sq);
                s.entries.entry(k.clone()).or_default().push((sq, ty));
                if ty == 4 {
                    let mut r = &item.value[..];
                    match BlobIndirection::decode_from(&mut r) {
                        Ok(ind) => {
                            let (bf, _off, on_disk, size) = verif::indirection_parts(&ind);
                            let e = s.refs.entry(bf).or_insert((0, 0, 0));
                            e.0 += 1;
                            e.1 += u64::from(size);
                            e.2 += u64::from(on_disk);
                        }
                        Err(e) => s.problems.push(format!("undecodable pointer for {:?}: {e:?}", crate::json::esc(&k))),
                    }
                }
                seq.push((k, sq, ty, item.value.to_vec()));
            }
        }
    }

    // stored metadata vs. actual contents
    let m = &t.metadata;
    if m.item_count != s.n_items {
        s.problems.push(format!("meta item_count {} != actual {}", m.item_count, s.n_items));
    }
    if m.tombstone_count != s.n_tomb {
        s.problems.push(format!("meta tombstone_count {} != actual {}", m.tombstone_count, s.n_tomb));
    }
    if m.weak_tombstone_count != s.n_weak {
        s.problems.push(format!("meta weak_tombstone_count {} != actual {}", m.weak_tombstone_count, s.n_weak));
    }
    if s.n_items > 0 {
        if &**m.key_range.min() != s.min_key.as_slice() || &**m.key_range.max() != s.max_key.as_slice() {
            s.problems.push(format!(
                "meta key range [{:?},{:?}] != actual [{:?},{:?}]",
                crate::json::esc(m.key_range.min()),
                crate::json::esc(m.key_range.max()),
                crate::json::esc(&s.min_key),
                crate::json::esc(&s.max_key)
            ));
        }
        let (lo, hi) = t.verif_seqno_range();
        let g = t.global_seqno();
        if lo + g != s.seq_min || hi + g != s.seq_max {
            s.problems.push(format!(
                "meta seqno range ({lo},{hi})+{g} != actual ({},{})",
                s.seq_min, s.seq_max
            ));
        }
        if t.get_highest_seqno() != s.seq_max {
            s.problems.push(format!("get_highest_seqno {} != actual max {}", t.get_highest_seqno(), s.seq_max));
        }
    }

    // the index-driven iterator must agree with the sequential scanner (both directions)
    let mut via_iter: Vec<(Key, u64, u8, Vec<u8>)> = vec![];
    for item in t.iter() {
        match item {
            Ok(i) => via_iter.push((i.key.user_key.to_vec(), i.key.seqno, vt(i.key.value_type), i.value.to_vec())),
            Err(e) => {
                s.problems.push(format!("iter() error: {e:?}"));
                break;
            }
        }
    }
    if via_iter != seq {
        s.problems.push(format!("iter() yields {} items, scan() {} (or contents differ)", via_iter.len(), seq.len()));
    }
    let mut via_rev: Vec<(Key, u64, u8, Vec<u8>)> = vec![];
    for item in t.iter().rev() {
        match item {
            Ok(i) => via_rev.push((i.key.user_key.to_vec(), i.key.seqno, vt(i.key.value_type), i.value.to_vec())),
            Err(e) => {
                s.problems.push(format!("iter().rev() error: {e:?}"));
                break;
            }
        }
    }
    via_rev.reverse();
    if via_rev != seq {
        s.problems.push(format!("iter().rev() yields {} items, scan() {} (or contents differ)", via_rev.len(), seq.len()));
    }

    // stored blob links vs recount
    match t.list_blob_file_references() {
        Ok(links) => {
            let mut stored: BTreeMap<u64, (usize, u64, u64)> = BTreeMap::new();
            for l in links.unwrap_or_default() {
                stored.insert(l.blob_file_id, (l.len, l.bytes, l.on_disk_bytes));
            }
            if stored != s.refs {
                s.problems.push(format!("stored blob links {stored:?} != recounted pointers {:?}", s.refs));
            }
        }
        Err(e) => s.problems.push(format!("list_blob_file_references failed: {e:?}")),
    }

    s
}

pub fn summarize_blob_file(path: &Path, meta: (u64, u64, u64)) -> BlobSummary {
    let mut s = BlobSummary::default();
    let run = || -> Result<(u64, u64, u64), String> {
        let reader = sfa::Reader::new(path).map_err(|e| format!("sfa open: {e:?}"))?;
        let sec = reader.toc().section(b"data").ok_or("no data section")?;
        let buf = std::fs::read(path).map_err(|e| e.to_string())?;
        let start = sec.pos() as usize;
        let end = start + sec.len() as usize;
        if end > buf.len() {
            return Err("data section exceeds file".into());
        }
        let b = &buf[start..end];
        let mut p = 0usize;
        let (mut items, mut bytes, mut on_disk) = (0u64, 0u64, 0u64);
        while p < b.len() {
            if p + 38 > b.len() || &b[p..p + 4] != b"BLOB" {
                return Err(format!("bad frame at {p}"));
            }
            let klen = u16::from_le_bytes([b[p + 28], b[p + 29]]) as usize;
            let real = u32::from_le_bytes([b[p + 30], b[p + 31], b[p + 32], b[p + 33]]) as u64;
            let disk = u32::from_le_bytes([b[p + 34], b[p + 35], b[p + 36], b[p + 37]]) as u64;
            p += 38 + klen + disk as usize;
            items += 1;
            bytes += real;
            on_disk += disk;
        }
        Ok((items, bytes, on_disk))
    };
    match run() {
        Ok((items, bytes, on_disk)) => {
            s.items = items;
            s.bytes = bytes;
            s.on_disk = on_disk;
            if (items, on_disk, bytes) != meta {
                s.problems.push(format!(
                    "blob file metadata (items,on_disk,bytes)={meta:?} != frames ({items},{on_disk},{bytes})"
                ));
            }
        }
        Err(e) => s.problems.push(format!("cannot parse blob file frames: {e}")),
    }
    s
}

type ManifestTables = Vec<Vec<Vec<(u64, u128, u64)>>>;

fn decode_manifest(path: &Path) -> Result<(ManifestTables, Vec<(u64, u128)>, BTreeMap<u64, (usize, u64, u64)>), String> {
    let reader = sfa::Reader::new(path).map_err(|e| format!("{e:?}"))?;
    let toc = reader.toc();
    let buf = std::fs::read(path).map_err(|e| e.to_string())?;
    let sect = |name: &[u8]| -> Result<&[u8], String> {
        let s = toc.section(name).ok_or_else(|| format!("section {:?} missing", String::from_utf8_lossy(name)))?;
        let (a, l) = (s.pos() as usize, s.len() as usize);
        buf.get(a..a + l).ok_or_else(|| "section out of file".to_string())
    };
    fn take<'a>(b: &mut &'a [u8], n: usize) -> Result<&'a [u8], String> {
        if b.len() < n {
            return Err("short section".into());
        }
        let (h, t) = b.split_at(n);
        *b = t;
        Ok(h)
    }
    let u64le = |b: &[u8]| u64::from_le_bytes(b.try_into().unwrap());
    let u32le = |b: &[u8]| u32::from_le_bytes(b.try_into().unwrap());
    let u128le = |b: &[u8]| u128::from_le_bytes(b.try_into().unwrap());

    let mut t = sect(b"tables")?;
    let level_count = take(&mut t, 1)?[0];
    let mut levels = vec![];
    for _ in 0..level_count {
        let run_count = take(&mut t, 1)?[0];
        let mut runs = vec![];
        for _ in 0..run_count {
            let n = u32le(take(&mut t, 4)?);
            let mut run = vec![];
            for _ in 0..n {
                let id = u64le(take(&mut t, 8)?);
                let ct = take(&mut t, 1)?[0];
                if ct != 0 {
                    return Err("checksum type".into());
                }
                let cs = u128le(take(&mut t, 16)?);
                let gs = u64le(take(&mut t, 8)?);
                run.push((id, cs, gs));
            }
            runs.push(run);
        }
        levels.push(runs);
    }
    if !t.is_empty() {
        return Err("trailing bytes in tables section".into());
    }

    let mut b = sect(b"blob_files")?;
    let n = u32le(take(&mut b, 4)?);
    let mut blobs = vec![];
    for _ in 0..n {
        let id = u64le(take(&mut b, 8)?);
        let _ct = take(&mut b, 1)?[0];
        let cs = u128le(take(&mut b, 16)?);
        blobs.push((id, cs));
    }
    blobs.sort();

    let mut g = sect(b"blob_gc_stats")?;
    let n = u32le(take(&mut g, 4)?);
    let mut gc = BTreeMap::new();
    for _ in 0..n {
        let id = u64le(take(&mut g, 8)?);
        let len = u32le(take(&mut g, 4)?) as usize;
        let bytes = u64le(take(&mut g, 8)?);
        let od = u64le(take(&mut g, 8)?);
        gc.insert(id, (len, bytes, od));
    }
    Ok((levels, blobs, gc))
}

pub struct VersionAuditStats {
    pub tables: usize,
    pub runs: usize,
    pub levels_populated: usize,
    pub max_tables_per_run: usize,
    pub l0_runs: usize,
    pub blob_files: usize,
    pub table_ids: BTreeSet<u64>,
    pub unreferenced_blob_files: Vec<u64>,
    pub expected_stale_on_disk: u64,
}

/// Audits one published version. `tree_dir` is the tree's directory.
pub fn audit_version(
    cache: &mut AuditCache,
    tree_dir: &Path,
    version: &Version,
    is_blob_tree: bool,
    check_manifest_file: bool,
) -> (Vec<Finding>, VersionAuditStats) {
    let mut out = vec![];
    let mut stats = VersionAuditStats { tables: 0, runs: 0, levels_populated: 0, max_tables_per_run: 0, l0_runs: 0, blob_files: 0, table_ids: BTreeSet::new(), unreferenced_blob_files: vec![], expected_stale_on_disk: 0 };
    let vid = version.id();

    // read order: levels top-down, runs in order, tables by key
    let mut min_seen: BTreeMap<Key, (u64, u64)> = BTreeMap::new(); // key -> (min seqno seen earlier, table id)
    let mut refs_total: BTreeMap<u64, (usize, u64, u64)> = BTreeMap::new();
    let mut structure: ManifestTables = vec![];

    for (li, level) in version.iter_levels().enumerate() {
        let mut lv = vec![];
        if !level.is_empty() {
            stats.levels_populated += 1;
        }
        if li == 0 {
            stats.l0_runs = level.run_count();
        }
        for run in level.iter() {
            stats.runs += 1;
            stats.max_tables_per_run = stats.max_tables_per_run.max(run.len());
            let mut rv = vec![];
            if run.is_empty() {
                out.push(finding("C07", "empty-run", format!("v{vid}: empty run in level {li}")));
            }
            // (1) ascending, pairwise disjoint
            for w in run.windows(2) {
                let (a, b) = (&w[0], &w[1]);
                if !(a.metadata.key_range.max() < b.metadata.key_range.min()) {
                    out.push(finding(
                        "C07",
                        "run-not-disjoint",
                        format!(
                            "v{vid} L{li}: tables {} [{:?}..{:?}] and {} [{:?}..{:?}] of one run are not ascending/disjoint",
                            a.id(), crate::json::esc(a.metadata.key_range.min()), crate::json::esc(a.metadata.key_range.max()),
                            b.id(), crate::json::esc(b.metadata.key_range.min()), crate::json::esc(b.metadata.key_range.max()),
                        ),
                    ));
                }
            }
            let mut run_min_updates: Vec<(Key, u64, u64)> = vec![];
            for table in run.iter() {
                stats.tables += 1;
                stats.table_ids.insert(table.id());
                rv.push((table.id(), table.checksum().into_u128(), table.global_seqno()));

                // (4) file exists
                if !table.path.exists() {
                    out.push(finding("C07", "table-file-missing", format!("v{vid}: table {} named by the version is missing on disk", table.id())));
                    out.push(finding("C20", "premature-delete:table", format!("v{vid}: table file {} missing", table.id())));
                    continue;
                }

                let key = (table.id(), table.checksum().into_u128(), table.global_seqno());
                let summary = if let Some(s) = cache.tables.get(&key) {
                    s.clone()
                } else {
                    cache.tables_scanned += 1;
                    let s = std::sync::Arc::new(summarize_table(table));
                    cache.tables.insert(key, s.clone());
                    s
                };

                // (3) metadata == contents
                for p in &summary.problems {
                    let sig = p.split(|c: char| c.is_ascii_digit() || c == '[' || c == '(').next().unwrap_or("").trim().to_string();
                    out.push(finding("C07", format!("table-content:{sig}"), format!("v{vid} table {}: {p}", table.id())));
                }

                // (2) cross-table ordering: earlier-consulted tables hold only newer seqnos
                for (k, (mx, mn)) in &summary.keys {
                    if let Some((earlier_min, tid)) = min_seen.get(k) {
                        if *mx >= *earlier_min {
                            out.push(finding(
                                "C07",
                                "read-order",
                                format!(
                                    "v{vid}: key {:?} has seqno {} in table {} (L{li}) consulted after table {} which holds seqno {} for it",
                                    crate::json::esc(k), mx, table.id(), tid, earlier_min
                                ),
                            ));
                        }
                    }
                    run_min_updates.push((k.clone(), *mn, table.id()));
                }

                for (bf, (n, b, d)) in &summary.refs {
                    let e = refs_total.entry(*bf).or_insert((0, 0, 0));
                    e.0 += n;
                    e.1 += b;
                    e.2 += d;
                }
            }
            for (k, mn, tid) in run_min_updates {
                let e = min_seen.entry(k).or_insert((mn, tid));
                if mn < e.0 {
                    *e = (mn, tid);
                }
            }
            lv.push(rv);
        }
        structure.push(lv);
    }

    // blob side (C09) -------------------------------------------------------------------------
    let mut blob_ids: BTreeSet<u64> = BTreeSet::new();
    let mut blob_list: Vec<(u64, u128)> = vec![];
    for bf in version.blob_files.iter() {
        stats.blob_files += 1;
        blob_ids.insert(bf.id());
        blob_list.push((bf.id(), bf.checksum().into_u128()));
        if !bf.path().exists() {
            out.push(finding("C07", "blob-file-missing", format!("v{vid}: blob file {} named by the version is missing on disk", bf.id())));
            out.push(finding("C20", "premature-delete:blob", format!("v{vid}: blob file {} missing", bf.id())));
            continue;
        }
        let meta = verif::blob_file_meta(bf);
        let key = (bf.id(), bf.checksum().into_u128());
        let bs = if let Some(s) = cache.blobs.get(&key) {
            s.clone()
        } else {
            cache.blobs_scanned += 1;
            let s = std::sync::Arc::new(summarize_blob_file(bf.path(), meta));
            cache.blobs.insert(key, s.clone());
            s
        };
        for p in &bs.problems {
            out.push(finding("C09", "blob-file-meta", format!("v{vid} blob file {}: {p}", bf.id())));
        }
        if !bs.problems.is_empty() {
            continue;
        }
        let (rn, rb, rd) = refs_total.get(&bf.id()).copied().unwrap_or((0, 0, 0));
        if rn == 0 {
            stats.unreferenced_blob_files.push(bf.id());
        }
        let stored = version.gc_stats().get(&bf.id()).map(verif::frag_entry_parts).unwrap_or((0, 0, 0));
        if (rn as u64) > bs.items || rb > bs.bytes || rd > bs.on_disk {
            out.push(finding(
                "C09",
                "over-referenced",
                format!("v{vid} blob file {}: tables reference ({rn},{rb},{rd}) but file holds ({},{},{})", bf.id(), bs.items, bs.bytes, bs.on_disk),
            ));
            continue;
        }
        let expect = ((bs.items - rn as u64) as usize, bs.bytes - rb, bs.on_disk - rd);
        stats.expected_stale_on_disk += expect.2;
        if stored != expect {
            out.push(finding(
                "C09",
                "gc-stats-mismatch",
                format!(
                    "v{vid} blob file {}: recorded garbage (len,bytes,on_disk)={stored:?} but recount gives {expect:?} (file holds ({},{},{}), referenced ({rn},{rb},{rd}))",
                    bf.id(), bs.items, bs.bytes, bs.on_disk
                ),
            ));
        }
    }
    // dangling references
    for (bf, (n, _, _)) in &refs_total {
        if !blob_ids.contains(bf) {
            out.push(finding("C09", "dangling-reference", format!("v{vid}: {n} pointer(s) into blob file {bf}, which the version does not list")));
            out.push(finding("C08", "dangling-reference", format!("v{vid}: {n} pointer(s) into blob file {bf}, which the version does not list")));
        }
    }
    // gc stats for files that are not listed
    for (bf, _) in version.gc_stats().iter() {
        if !blob_ids.contains(bf) {
            out.push(finding("C09", "gc-stats-for-unlisted-file", format!("v{vid}: garbage statistics for blob file {bf}, which the version does not list")));
        }
    }
    if !is_blob_tree && (stats.blob_files > 0 || !refs_total.is_empty()) {
        out.push(finding("C07", "blobs-in-standard-tree", format!("v{vid}: standard tree version lists blob files / pointers")));
    }

    // (5) manifest on disk decodes to the same structure ----------------------------------------
    if check_manifest_file {
        let p = tree_dir.join(format!("v{vid}"));
        if p.exists() {
            match decode_manifest(&p) {
                Err(e) => out.push(finding("C07", "manifest-undecodable", format!("v{vid}: version file does not decode: {e}"))),
                Ok((levels, blobs, gc)) => {
                    if levels != structure {
                        out.push(finding("C07", "manifest-mismatch:tables", format!("v{vid}: version file levels/runs/tables {levels:?} != in-memory {structure:?}")));
                    }
                    blob_list.sort();
                    if blobs != blob_list {
                        out.push(finding("C07", "manifest-mismatch:blob_files", format!("v{vid}: version file blob files {blobs:?} != in-memory {blob_list:?}")));
                    }
                    // statistics of the blob files the version lists (entries of files that already
                    // left the version are covered by the "unlisted" check above)
                    let mem: BTreeMap<u64, (usize, u64, u64)> = version
                        .gc_stats()
                        .iter()
                        .filter(|(k, _)| blob_ids.contains(k))
                        .map(|(k, v)| (*k, verif::frag_entry_parts(v)))
                        .collect();
                    let gc: BTreeMap<u64, (usize, u64, u64)> = gc.into_iter().filter(|(k, _)| blob_ids.contains(k)).collect();
                    if gc != mem {
                        out.push(finding("C09", "manifest-mismatch:gc_stats", format!("v{vid}: version file gc stats {gc:?} != in-memory {mem:?}")));
                    }
                }
            }
        }
    }

    (out, stats)
}

/// What is on disk in a tree directory: (table ids, blob file ids, version ids, other names).
pub fn list_dir(tree_dir: &Path) -> (BTreeSet<u64>, BTreeSet<u64>, BTreeSet<u64>, Vec<String>) {
    let mut tables = BTreeSet::new();
    let mut blobs = BTreeSet::new();
    let mut versions = BTreeSet::new();
    let mut other = vec![];
    let ls = |p: &Path| -> Vec<String> {
        std::fs::read_dir(p)
            .map(|rd| rd.filter_map(|e| e.ok()).map(|e| e.file_name().to_string_lossy().to_string()).collect())
            .unwrap_or_default()
    };
    for n in ls(&tree_dir.join("tables")) {
        match n.parse::<u64>() {
            Ok(i) => {
                tables.insert(i);
            }
            Err(_) => other.push(format!("tables/{n}")),
        }
    }
    for n in ls(&tree_dir.join("blobs")) {
        match n.parse::<u64>() {
            Ok(i) => {
                blobs.insert(i);
            }
            Err(_) => other.push(format!("blobs/{n}")),
        }
    }
    for n in ls(tree_dir) {
        if n == "tables" || n == "blobs" || n == "current" {
            continue;
        }
        if let Some(rest) = n.strip_prefix('v') {
            if let Ok(i) = rest.parse::<u64>() {
                versions.insert(i);
                continue;
            }
        }
        other.push(n);
    }
    (tables, blobs, versions, other)
}

/// Ids named by a set of retained super versions.
pub fn named_by(history: &[SuperVersion]) -> (BTreeSet<u64>, BTreeSet<u64>, BTreeSet<u64>) {
    let mut tables = BTreeSet::new();
    let mut blobs = BTreeSet::new();
    let mut versions = BTreeSet::new();
    for sv in history {
        let (v, _, _, _) = verif::super_version_parts(sv);
        versions.insert(v.id());
        for t in v.iter_tables() {
            tables.insert(t.id());
        }
        for b in v.blob_files.iter() {
            blobs.insert(b.id());
        }
    }
    (tables, blobs, versions)
}

/// C20 directory audit at a quiescent point.
///
/// `strict` (after reopen): the directory must hold exactly what the current version names.
pub fn audit_dir(
    tree_dir: &Path,
    history: &[SuperVersion],
    known_orphans: &(BTreeSet<u64>, BTreeSet<u64>),
    strict: bool,
    ctx: &str,
) -> Vec<Finding> {
    let mut out = vec![];
    let (dt, db, dv, _other) = list_dir(tree_dir);
    let (nt, nb, nv) = named_by(history);

    for t in nt.difference(&dt) {
        out.push(finding("C20", "premature-delete:table", format!("table file {t} is named by a retained version but missing on disk ({ctx})")));
    }
    for b in nb.difference(&db) {
        out.push(finding("C20", "premature-delete:blob", format!("blob file {b} is named by a retained version but missing on disk ({ctx})")));
    }
    // the newest version's file must exist; older retained version files are deleted together with their super version
    if let Some(latest) = history.last() {
        let id = verif::super_version_parts(latest).0.id();
        if !dv.contains(&id) {
            out.push(finding("C20", "premature-delete:version", format!("version file v{id} of the current version is missing ({ctx})")));
        }
    }

    let which = if strict { "after-reopen" } else { "in-session" };
    for t in dt.difference(&nt) {
        if !strict && known_orphans.0.contains(t) {
            continue;
        }
        out.push(finding("C20", format!("leak:table:{which}:{ctx}"), format!("table file {t} on disk is named by no retained version ({which}, {ctx})")));
    }
    for b in db.difference(&nb) {
        if !strict && known_orphans.1.contains(b) {
            continue;
        }
        out.push(finding("C20", format!("leak:blob:{which}:{ctx}"), format!("blob file {b} on disk is named by no retained version ({which}, {ctx})")));
    }
    for v in dv.difference(&nv) {
        out.push(finding("C20", format!("leak:version:{which}:{ctx}"), format!("version file v{v} on disk belongs to no retained version ({which}, {ctx})")));
    }
    out
}
