pub mod model;

use crate::json::J;
use crate::Args;
use std::path::Path;

pub fn dispatch(cmd: &str, _args: &Args) -> i32 {
    eprintln!("unknown command {cmd:?}; commands: model, replay");
    2
}

pub fn replay_other(engine: &str, _j: &J, _scratch: &Path) -> i32 {
    eprintln!("replay: unknown engine {engine:?}");
    2
}
