pub mod conc;
pub mod corrupt;
pub mod crash;
pub mod fault;
pub mod model;
pub mod table;

use crate::json::J;
use crate::Args;
use std::path::Path;

pub fn dispatch(cmd: &str, args: &Args) -> i32 {
    match cmd {
        "table" => table::cmd(args),
        "corrupt" => corrupt::cmd(args),
        "corrupt-worker" => corrupt::worker(args),
        "crashrun" => crash::crashrun(args),
        "crashcheck" => crash::crashcheck(args),
        "faultrun" => fault::faultrun(args),
        "conc" => conc::cmd(args),
        _ => {
            eprintln!("unknown command {cmd:?}; commands: model, table, replay");
            2
        }
    }
}

pub fn replay_other(engine: &str, j: &J, scratch: &Path) -> i32 {
    match engine {
        "table" => table::replay(j, scratch),
        "corrupt" => corrupt::replay(j, scratch),
        "conc" => conc::replay(j, scratch),
        _ => {
            eprintln!("replay: unknown engine {engine:?}");
            2
        }
    }
}
