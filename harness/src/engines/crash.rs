//! Engine `crash` (C05): crash images from a recorded syscall log.
//!
//!  * `crashrun`   — runs a seeded single-threaded history on a directory and brackets every
//!                   logical op with marker writes (op index + the model's durable dump). It is
//!                   meant to run under `strace`, which records every file-system mutation.
//!  * `crashcheck` — replays the parsed log (tools/fslog.py) through a small model of POSIX
//!                   persistence (volatile vs. fsynced file content, volatile vs. fsynced directory
//!                   entries) and, for EVERY prefix of the mutation sequence, materialises crash
//!                   images (ALL = everything issued, MIN = only what fsyncs guarantee, K seeded
//!                   mixes, torn final write), opens each with the real `Config::open`, and requires
//!                   the logical dump to be the state before or after the op in flight.

use crate::cfg::TreeCfg;
use crate::hooks;
use crate::inst::{bump, Counters, InstOpts, Instance};
use crate::json::{esc, J};
use crate::keys::Universe;
use crate::model::Expect;
use crate::ops::{self, Op};
use crate::rng::{fnv64, Rng};
use crate::Args;
use lsm_tree::{AbstractTree, Guard, SequenceNumberCounter};
use std::collections::{BTreeMap, BTreeSet};
use std::io::Write;
use std::panic::{catch_unwind, AssertUnwindSafe};
use std::path::{Path, PathBuf};
use std::sync::Arc;
use std::time::{Duration, Instant};

type Key = Vec<u8>;

pub struct CrashCase {
    pub cfg: TreeCfg,
    pub uni: Arc<Universe>,
    pub history: Vec<Op>,
}

pub fn build_case(seed: u64, case: u64) -> CrashCase {
    let mut rng = Rng::derive(seed, case ^ 0xC2A5);
    let uni = Arc::new(Universe::generate(&mut rng, 12, 0, 6));
    let blob = rng.chance(1, 2);
    let mut cfg = TreeCfg::random(&mut rng, Some(blob));
    cfg.block_size = vec![*rng.pick(&[64, 256, 4096])];
    if let Some(kv) = cfg.kv.as_mut() {
        kv.threshold = *rng.pick(&[8, 64]);
        kv.file_target = *rng.pick(&[128, 64 << 20]);
    }
    let mut p = ops::profile("layout").expect("profile");
    use ops::Kind::*;
    p.weights = [0; ops::Kind::_Count as usize];
    for (k, w) in [
        (Put, 30), (Del, 8), (Batch, 5), (Rotate, 3), (Flush, 16), (FlushSealed, 2), (Leveled, 10), (Major, 6),
        (MoveDown, 2), (PullDown, 2), (Reopen, 4), (Ingest, 5), (DropRange, 4), (Clear, 2),
    ] {
        p.weights[k as usize] = w;
    }
    p.min_ops = 18;
    p.max_ops = 45;
    let mut history = ops::gen_history(&mut rng, &p, &uni, &cfg.thresholds());
    for op in &mut history {
        if let Op::Put { vlen, .. } = op {
            *vlen = (*vlen).min(200);
        }
    }
    CrashCase { cfg, uni, history }
}

/// Durable logical content: newest visible (key, seqno, value hash) of persisted entries.
fn durable_dump(inst: &Instance) -> J {
    let mut m = inst.model.clone();
    m.reopen();
    let mut d = vec![];
    let mut u = vec![];
    for k in inst.all_keys() {
        match m.read(&k, u64::MAX) {
            Expect::Exact(Some((seq, v))) => d.push(J::Arr(vec![J::s(hex(&k)), J::i(seq), J::s(format!("{:016x}", fnv64(&v)))])),
            Expect::Exact(None) => {}
            Expect::Unknown => u.push(J::s(hex(&k))),
        }
    }
    let mut o = J::obj();
    o.set("d", J::Arr(d));
    o.set("u", J::Arr(u));
    o
}

fn hex(b: &[u8]) -> String {
    b.iter().map(|x| format!("{x:02x}")).collect()
}

fn unhex(s: &str) -> Vec<u8> {
    (0..s.len() / 2).map(|i| u8::from_str_radix(&s[2 * i..2 * i + 2], 16).unwrap_or(0)).collect()
}

pub fn crashrun(args: &Args) -> i32 {
    let seed = args.u("seed", 1);
    let case = args.u("case", 0);
    let dir = PathBuf::from(args.s("dir", "/dev/shm/lsmv-crashrun/tree"));
    let markers = PathBuf::from(args.s("markers", "/dev/shm/lsmv-crashrun/markers"));
    hooks::install_panic_capture();
    hooks::install_version_queue();
    hooks::install_clock();
    let c = build_case(seed, case);
    let mut mf = std::fs::OpenOptions::new().create(true).write(true).truncate(true).open(&markers).expect("markers");
    let mut mark = |s: String| {
        // one write syscall per marker
        let _ = mf.write_all(format!("{s}\n").as_bytes());
    };
    mark("M C0".into());
    let opts = InstOpts {
            detached: false,
        filter_seed: None,
        shared: None,
        obs_seed: seed ^ case,
        scan_cases: 0,
        fifo: false,
        fifo_desc: false,
        known: crate::load_known(args),
        focus: None,
        filter_large_len: 300,
    };
    let mut inst = match Instance::create(&dir, c.cfg.clone(), c.uni.clone(), opts) {
        Ok(i) => i,
        Err(v) => {
            mark(format!("M X create {}", v.sig));
            return 0;
        }
    };
    mark(format!("M C1 {}", durable_dump(&inst).render()));
    for (i, op) in c.history.iter().enumerate() {
        mark(format!("M B {i} {}", op.name()));
        if matches!(op, Op::Ingest { abandon: false, .. }) {
            // ingestion is documented as two steps: flush every memtable, then publish the
            // ingested tables atomically; the state after the first step is durable on its own
            let mut mid = inst.model.clone();
            mid.rotate();
            mid.flushed();
            let saved = std::mem::replace(&mut inst.model, mid);
            let d = durable_dump(&inst).render();
            inst.model = saved;
            mark(format!("M I {i} {d}"));
        }
        if let Err(v) = inst.exec(i, op) {
            mark(format!("M X {i} {}", v.sig));
            break;
        }
        mark(format!("M E {i} {}", durable_dump(&inst).render()));
    }
    drop(inst);
    mark("M Z".into());
    0
}

// ---------------------------------------------------------------------------------------------
// persistence model

#[derive(Clone, Debug, Default)]
struct Inode {
    content: Vec<u8>,
    /// content as of the last fsync of this file (what a crash is guaranteed to keep)
    synced: Vec<u8>,
}

#[derive(Clone, Debug, PartialEq, Eq)]
enum Ent {
    File(usize),
    Dir,
}

#[derive(Clone, Debug)]
enum DirOp {
    Set(String, Ent),
    Del(String),
}

#[derive(Clone, Debug, Default)]
struct Dir {
    entries: BTreeMap<String, Ent>,
    synced: BTreeMap<String, Ent>,
    pending: Vec<DirOp>,
}

#[derive(Clone, Debug, Default)]
struct Fs {
    inodes: Vec<Inode>,
    /// directory path relative to root ("" = root)
    dirs: BTreeMap<String, Dir>,
    root_exists: bool,
}

fn split(path: &str) -> (String, String) {
    match path.rfind('/') {
        Some(i) => (path[..i].to_string(), path[i + 1..].to_string()),
        None => (String::new(), path.to_string()),
    }
}

impl Fs {
    fn dir_mut(&mut self, d: &str) -> &mut Dir {
        self.dirs.entry(d.to_string()).or_default()
    }

    fn lookup(&self, path: &str) -> Option<Ent> {
        let (d, n) = split(path);
        self.dirs.get(&d).and_then(|x| x.entries.get(&n).cloned())
    }

    fn set(&mut self, path: &str, e: Ent) {
        let (d, n) = split(path);
        let dir = self.dir_mut(&d);
        dir.entries.insert(n.clone(), e.clone());
        dir.pending.push(DirOp::Set(n, e));
    }

    fn del(&mut self, path: &str) {
        let (d, n) = split(path);
        let dir = self.dir_mut(&d);
        dir.entries.remove(&n);
        dir.pending.push(DirOp::Del(n));
    }

    fn apply(&mut self, e: &J) {
        let t = e.get("t").and_then(J::as_str).unwrap_or("");
        let path = e.get("path").and_then(J::as_str).unwrap_or("").to_string();
        match t {
            "mkdir" => {
                if path.is_empty() {
                    self.root_exists = true;
                    self.dirs.entry(String::new()).or_default();
                } else {
                    self.root_exists = true;
                    self.set(&path, Ent::Dir);
                    self.dirs.entry(path).or_default();
                }
            }
            "create" => {
                let trunc = matches!(e.get("trunc"), Some(J::Bool(true)));
                match self.lookup(&path) {
                    Some(Ent::File(i)) => {
                        if trunc {
                            self.inodes[i].content.clear();
                        }
                    }
                    _ => {
                        self.inodes.push(Inode::default());
                        let id = self.inodes.len() - 1;
                        self.set(&path, Ent::File(id));
                    }
                }
            }
            "write" => {
                if let Some(Ent::File(i)) = self.lookup(&path) {
                    let data = unhex(e.get("data").and_then(J::as_str).unwrap_or(""));
                    let ino = &mut self.inodes[i];
                    let off = match e.get("off") {
                        Some(J::Int(o)) => *o as usize,
                        _ => ino.content.len(),
                    };
                    if ino.content.len() < off + data.len() {
                        ino.content.resize(off + data.len(), 0);
                    }
                    ino.content[off..off + data.len()].copy_from_slice(&data);
                }
            }
            "truncate" => {
                if let Some(Ent::File(i)) = self.lookup(&path) {
                    let len = e.get("len").and_then(J::as_i64).unwrap_or(0) as usize;
                    self.inodes[i].content.resize(len, 0);
                }
            }
            "fsync" => {
                if path.is_empty() || matches!(self.lookup(&path), Some(Ent::Dir)) {
                    if let Some(d) = self.dirs.get_mut(&path) {
                        d.synced = d.entries.clone();
                        d.pending.clear();
                    }
                } else if let Some(Ent::File(i)) = self.lookup(&path) {
                    let ino = &mut self.inodes[i];
                    ino.synced = ino.content.clone();
                }
            }
            "rename" => {
                let from = e.get("from").and_then(J::as_str).unwrap_or("").to_string();
                let to = e.get("to").and_then(J::as_str).unwrap_or("").to_string();
                if let Some(ent) = self.lookup(&from) {
                    self.del(&from);
                    self.set(&to, ent);
                }
            }
            "unlink" => {
                if self.lookup(&path).is_some() {
                    self.del(&path);
                }
            }
            _ => {}
        }
    }

    /// Materialises one crash image. `mode`: 0 = ALL, 1 = MIN, 2.. = seeded mix.
    /// `torn`: (path, bytes of the in-flight write that made it) for the final write.
    fn image(&self, mode: u64, rng: &mut Rng, out: &Path) -> u64 {
        let _ = std::fs::remove_dir_all(out);
        if !self.root_exists {
            return 0;
        }
        let mut h: u64 = 0xcbf2_9ce4_8422_2325;
        let mut mix = |b: &[u8]| {
            for &x in b {
                h ^= u64::from(x);
                h = h.wrapping_mul(0x0100_0000_01b3);
            }
        };
        std::fs::create_dir_all(out).expect("mkdir image");
        // breadth-first from the root so that a missing directory hides its subtree
        let mut todo = vec![String::new()];
        while let Some(d) = todo.pop() {
            let Some(dir) = self.dirs.get(&d) else { continue };
            let entries: BTreeMap<String, Ent> = match mode {
                0 => dir.entries.clone(),
                1 => dir.synced.clone(),
                m if m % 2 == 0 => {
                    // MIX: a prefix of this directory's unsynced entry operations (what a journaling FS produces)
                    let mut e = dir.synced.clone();
                    let n = rng.usize(dir.pending.len() + 1);
                    for op in &dir.pending[..n] {
                        match op {
                            DirOp::Set(k, v) => {
                                e.insert(k.clone(), v.clone());
                            }
                            DirOp::Del(k) => {
                                e.remove(k);
                            }
                        }
                    }
                    e
                }
                _ => {
                    // SUB: every NAME independently keeps a prefix of its own unsynced operations ("directory entries
                    // not yet fsynced present or absent", entry by entry — the weakest reading of POSIX)
                    let mut e = dir.synced.clone();
                    let mut names: Vec<&String> = dir.pending.iter().map(|op| match op { DirOp::Set(k, _) | DirOp::Del(k) => k }).collect();
                    names.sort();
                    names.dedup();
                    for name in names {
                        let ops: Vec<&DirOp> = dir.pending.iter().filter(|op| match op { DirOp::Set(k, _) | DirOp::Del(k) => k == name }).collect();
                        let n = rng.usize(ops.len() + 1);
                        for op in &ops[..n] {
                            match op {
                                DirOp::Set(k, v) => {
                                    e.insert(k.clone(), v.clone());
                                }
                                DirOp::Del(k) => {
                                    e.remove(k);
                                }
                            }
                        }
                    }
                    e
                }
            };
            for (name, ent) in entries {
                let rel = if d.is_empty() { name.clone() } else { format!("{d}/{name}") };
                mix(rel.as_bytes());
                match ent {
                    Ent::Dir => {
                        std::fs::create_dir_all(out.join(&rel)).expect("mkdir");
                        todo.push(rel);
                    }
                    Ent::File(i) => {
                        let ino = &self.inodes[i];
                        let bytes: &[u8] = match mode {
                            0 => &ino.content,
                            1 => &ino.synced,
                            _ => {
                                if ino.content.len() >= ino.synced.len() && ino.content.starts_with(&ino.synced) {
                                    let extra = rng.usize(ino.content.len() - ino.synced.len() + 1);
                                    &ino.content[..ino.synced.len() + extra]
                                } else if rng.chance(1, 2) {
                                    &ino.content
                                } else {
                                    &ino.synced
                                }
                            }
                        };
                        mix(bytes);
                        mix(&[0xFE]);
                        std::fs::write(out.join(&rel), bytes).expect("write image file");
                    }
                }
            }
        }
        h | 1
    }
}

#[derive(Clone, Debug, PartialEq, Eq)]
struct Dump {
    d: BTreeMap<Key, (u64, u64)>,
    u: BTreeSet<Key>,
}

fn parse_dump(j: &J) -> Dump {
    let mut d = BTreeMap::new();
    for e in j.get("d").and_then(J::as_arr).unwrap_or(&[]) {
        if let Some(a) = e.as_arr() {
            let k = unhex(a[0].as_str().unwrap_or(""));
            let s = a[1].as_i64().unwrap_or(0) as u64;
            let h = u64::from_str_radix(a[2].as_str().unwrap_or("0"), 16).unwrap_or(0);
            d.insert(k, (s, h));
        }
    }
    let u = j.get("u").and_then(J::as_arr).unwrap_or(&[]).iter().filter_map(J::as_str).map(unhex).collect();
    Dump { d, u }
}

/// Does the recovered content match an acceptable durable state?
fn matches(got: &BTreeMap<Key, (u64, u64)>, want: &Dump) -> bool {
    let strip = |m: &BTreeMap<Key, (u64, u64)>| -> BTreeMap<Key, (u64, u64)> { m.iter().filter(|(k, _)| !want.u.contains(*k)).map(|(k, v)| (k.clone(), *v)).collect() };
    strip(got) == strip(&want.d)
}

fn describe(d: &BTreeMap<Key, (u64, u64)>) -> String {
    d.iter().map(|(k, (s, h))| format!("{}@{s}#{:04x}", esc(k), h & 0xffff)).collect::<Vec<_>>().join(" ")
}

struct ImageVerdict {
    outcome: &'static str,
    detail: String,
    /// property the outcome refutes
    tag: &'static str,
}

fn check_image(cfg: &TreeCfg, dir: &Path, keys: &[Key], acceptable: &[&Dump], exercise: bool) -> ImageVerdict {
    let r = catch_unwind(AssertUnwindSafe(|| -> Result<(), (&'static str, String)> {
        let c = cfg.build(dir, SequenceNumberCounter::new(1_000_000), SequenceNumberCounter::new(1_000_000), None);
        let tree = c.open().map_err(|e| ("open-error", format!("Config::open failed: {e:?}")))?;
        let mut got: BTreeMap<Key, (u64, u64)> = BTreeMap::new();
        for g in tree.iter(u64::MAX, None) {
            let (k, v) = g.into_inner().map_err(|e| ("read-error", format!("scan failed after recovery: {e:?}")))?;
            let e = tree
                .get_internal_entry(&k, u64::MAX)
                .map_err(|e| ("read-error", format!("point read failed after recovery: {e:?}")))?
                .ok_or(("wrong-state", format!("scan yields {:?} but point read does not", esc(&k))))?;
            got.insert(k.to_vec(), (e.key.seqno, fnv64(&v)));
        }
        // keys the scan did not yield must be absent for point reads too
        for k in keys {
            if !got.contains_key(k) {
                if let Ok(Some(_)) = tree.get(k, u64::MAX) {
                    return Err(("wrong-state", format!("point read finds {:?} but scan does not", esc(k))));
                }
            }
        }
        if !acceptable.iter().any(|d| matches(&got, d)) {
            return Err((
                "wrong-state",
                format!(
                    "recovered content [{}] is neither the state before the interrupted op [{}] nor after it [{}]",
                    describe(&got),
                    describe(&acceptable[0].d),
                    describe(&acceptable[acceptable.len() - 1].d)
                ),
            ));
        }
        // C20 "always after a reopen": the recovered directory holds no table, blob or version file other than those
        // the recovered version names (crashes leave partial files; recovery has to clean them up)
        {
            let hist = tree.get_version_history_lock().verif_history();
            let f = crate::audit::audit_dir(dir, &hist, &Default::default(), true, "crash-recovery");
            drop(hist);
            if let Some(f) = f.first() {
                return Err(("dir-audit", format!("{}: {}", f.sig, f.msg)));
            }
        }
        if exercise {
            // the recovered tree must be usable: write, flush, compact, read back
            let s = 2_000_000;
            tree.insert("zz-after-crash", "value-after-crash", s);
            tree.flush_active_memtable(0).map_err(|e| ("unusable-after-recovery", format!("flush failed: {e:?}")))?;
            tree.major_compact(u64::MAX, 0).map_err(|e| ("unusable-after-recovery", format!("major_compact failed: {e:?}")))?;
            let v = tree.get("zz-after-crash", u64::MAX).map_err(|e| ("unusable-after-recovery", format!("read failed: {e:?}")))?;
            if v.as_deref() != Some(&b"value-after-crash"[..]) {
                return Err(("unusable-after-recovery", "a write after recovery is not readable".into()));
            }
            for (k, (_, h)) in &got {
                let v = tree.get(k, u64::MAX).map_err(|e| ("unusable-after-recovery", format!("read failed: {e:?}")))?;
                if v.map(|v| fnv64(&v)) != Some(*h) {
                    return Err(("unusable-after-recovery", format!("key {:?} changed after flush+compaction on the recovered tree", esc(k))));
                }
            }
        }
        Ok(())
    }));
    match r {
        Ok(Ok(())) => ImageVerdict { outcome: "ok", detail: String::new(), tag: "C05" },
        Ok(Err((o, d))) => ImageVerdict { outcome: o, detail: d, tag: if o == "dir-audit" { "C20" } else { "C05" } },
        Err(_) => ImageVerdict { outcome: "open-panic", detail: format!("panic: {}", hooks::take_panic().unwrap_or_default()), tag: "C05" },
    }
}

pub fn crashcheck(args: &Args) -> i32 {
    let seed = args.u("seed", 1);
    let case = args.u("case", 0);
    let k_mixes = args.u("k", 2);
    let events_path = args.s("events", "");
    let out = args.s("out", "");
    let replay_dir = PathBuf::from(args.s("replay-dir", "/verif/replays"));
    let scratch = crate::scratch_dir(args);
    let limit = Duration::from_secs(args.u("time-limit", 600));
    hooks::install_panic_capture();
    hooks::install_clock();
    let known = crate::load_known(args);
    let start = Instant::now();

    let text = std::fs::read_to_string(&events_path).expect("events file");
    let j = J::parse(&text).expect("events json");
    let events = j.get("events").and_then(J::as_arr).expect("events").to_vec();
    let c = build_case(seed, case);
    let keys = {
        let mut k = c.uni.keys.clone();
        k.push(b"zz-after-crash".to_vec());
        k
    };

    // pre-scan markers: durable dump after each op
    let mut mids: BTreeMap<i64, Dump> = BTreeMap::new(); // intermediate durable state of compound ops
    let mut dumps: BTreeMap<i64, Dump> = BTreeMap::new(); // -1 = after create
    let mut op_names: BTreeMap<i64, String> = BTreeMap::new();
    let mut aborted = None;
    for e in &events {
        if e.get("t").and_then(J::as_str) == Some("marker") {
            let t = e.get("text").and_then(J::as_str).unwrap_or("");
            let parts: Vec<&str> = t.splitn(4, ' ').collect();
            match parts.get(1).copied() {
                Some("C1") => {
                    dumps.insert(-1, parse_dump(&J::parse(parts.get(2..).map(|p| p.join(" ")).unwrap_or_default().as_str()).unwrap_or(J::Null)));
                }
                Some("B") => {
                    op_names.insert(parts[2].parse().unwrap_or(0), parts.get(3).copied().unwrap_or("?").to_string());
                }
                Some("E") => {
                    let k: i64 = parts[2].parse().unwrap_or(0);
                    dumps.insert(k, parse_dump(&J::parse(parts.get(3).copied().unwrap_or("{}")).unwrap_or(J::Null)));
                }
                Some("I") => {
                    let k: i64 = parts[2].parse().unwrap_or(0);
                    mids.insert(k, parse_dump(&J::parse(parts.get(3).copied().unwrap_or("{}")).unwrap_or(J::Null)));
                }
                Some("X") => aborted = Some(t.to_string()),
                _ => {}
            }
        }
    }
    let empty = Dump { d: BTreeMap::new(), u: BTreeSet::new() };

    let mut fs = Fs::default();
    let mut counters = Counters::new();
    let mut seen_images: BTreeSet<u64> = BTreeSet::new();
    let mut violations: Vec<J> = vec![];
    let mut seen_sig = BTreeSet::new();
    let mut known_hits: BTreeMap<String, (u64, String)> = BTreeMap::new();
    let mut cur_op: i64 = -2; // -2 = creating, then index of op in flight, or "between" with last finished
    let mut in_flight = true;
    let mut last_done: i64 = -2;
    let img = scratch.join("img");
    let mut rng = Rng::derive(seed, case ^ 0x1377);
    let mut mutation_no = 0u64;
    let mut truncated = false;

    for e in events.iter() {
        let t = e.get("t").and_then(J::as_str).unwrap_or("");
        if t == "marker" {
            let text = e.get("text").and_then(J::as_str).unwrap_or("");
            let parts: Vec<&str> = text.splitn(4, ' ').collect();
            match parts.get(1).copied() {
                Some("C0") => {
                    cur_op = -2;
                    in_flight = true;
                }
                Some("C1") => {
                    last_done = -1;
                    in_flight = false;
                }
                Some("B") => {
                    cur_op = parts[2].parse().unwrap_or(0);
                    in_flight = true;
                }
                Some("E") => {
                    last_done = parts[2].parse().unwrap_or(0);
                    in_flight = false;
                }
                _ => {}
            }
            continue;
        }
        if t == "failed" {
            continue;
        }
        if start.elapsed() > limit {
            truncated = true;
            break;
        }
        // torn final write: the prefix variants of this write, everything else as issued
        let mut variants: Vec<(String, Option<J>)> = vec![];
        if t == "write" {
            let data = e.get("data").and_then(J::as_str).unwrap_or("");
            let n = data.len() / 2;
            for cut in [0usize, 1, n / 2, n.saturating_sub(1)] {
                if cut < n {
                    let mut p = e.clone();
                    p.set("data", J::s(&data[..cut * 2]));
                    variants.push((format!("torn{cut}of{n}"), Some(p)));
                }
            }
        }
        variants.push(("full".into(), None));

        for (vname, partial) in variants {
            let mut f = fs.clone();
            match &partial {
                Some(p) => f.apply(p),
                None => f.apply(e),
            }
            let before: &Dump = if last_done == -2 { &empty } else { dumps.get(&last_done).unwrap_or(&empty) };
            let acceptable: Vec<&Dump> = if in_flight {
                if cur_op == -2 {
                    vec![&empty]
                } else {
                    let mut a = vec![before];
                    if let Some(mid) = mids.get(&cur_op) {
                        a.push(mid);
                    }
                    if let Some(after) = dumps.get(&cur_op) {
                        a.push(after); // (absent if the run was aborted inside this op)
                    }
                    a
                }
            } else {
                vec![before]
            };
            let opname = if in_flight { if cur_op == -2 { "create".to_string() } else { op_names.get(&cur_op).cloned().unwrap_or_default() } } else { "between-ops".to_string() };
            let modes: Vec<u64> = if partial.is_some() { vec![0] } else { (0..2 + k_mixes).collect() };
            for mode in modes {
                let h = f.image(mode, &mut rng, &img);
                bump(&mut counters, "images_generated", 1);
                if !seen_images.insert(h ^ fnv64(format!("{:?}", acceptable.iter().map(|d| describe(&d.d)).collect::<Vec<_>>()).as_bytes())) {
                    bump(&mut counters, "images_deduplicated", 1);
                    continue;
                }
                let mname = match mode {
                    0 => "ALL",
                    1 => "MIN",
                    m if m % 2 == 0 => "MIX",
                    _ => "SUB",
                };
                let exercise = rng.chance(1, 4);
                let v = check_image(&c.cfg, &img, &keys, &acceptable, exercise);
                bump(&mut counters, "images_checked", 1);
                bump(&mut counters, &format!("image:{mname}"), 1);
                bump(&mut counters, &format!("during:{opname}"), 1);
                if exercise {
                    bump(&mut counters, "images_exercised_after_recovery", 1);
                }
                bump(&mut counters, &format!("outcome:{}", v.outcome), 1);
                if v.outcome != "ok" {
                    let detail_kind = if v.detail.contains("Unrecoverable") {
                        "Unrecoverable"
                    } else if v.detail.contains("NotFound") {
                        "NotFound"
                    } else if v.detail.contains("UnexpectedEof") {
                        "UnexpectedEof"
                    } else if v.detail.contains("ChecksumMismatch") {
                        "ChecksumMismatch"
                    } else if v.outcome == "dir-audit" {
                        if v.detail.contains("leak:table") {
                            "leak:table"
                        } else if v.detail.contains("leak:blob") {
                            "leak:blob"
                        } else if v.detail.contains("leak:version") {
                            "leak:version"
                        } else {
                            "premature-delete"
                        }
                    } else {
                        "other"
                    };
                    let kvs = if c.cfg.kv.is_some() { "kv" } else { "std" };
                    let sig = format!("crash:{}:{detail_kind}:{mname}:{kvs}", v.outcome);
                    let msg = format!(
                        "crash during op {opname} (mutation #{mutation_no} {t} {}{}, image {mname}): {}",
                        e.get("path").or(e.get("to")).and_then(J::as_str).unwrap_or(""),
                        if vname == "full" { String::new() } else { format!(" [{vname}]") },
                        v.detail
                    );
                    if known.contains(&(v.tag.to_string(), sig.clone())) {
                        let e = known_hits.entry(format!("{}|{sig}", v.tag)).or_insert((0, msg.clone()));
                        e.0 += 1;
                    } else if seen_sig.insert(sig.clone()) && violations.len() < 5 {
                        let _ = std::fs::create_dir_all(&replay_dir);
                        let path = replay_dir.join(format!("crash-s{seed}-c{case}-{}.json", violations.len()));
                        let mut o = J::obj();
                        o.set("engine", J::s("crash"));
                        o.set("seed", J::i(seed));
                        o.set("case", J::i(case));
                        o.set("mutation_no", J::i(mutation_no));
                        o.set("variant", J::s(format!("{vname}/{mname}")));
                        o.set("config", c.cfg.describe());
                        o.set("ops", J::Arr(c.history.iter().enumerate().map(|(i, op)| J::s(format!("#{i} {}", op.render(&c.uni)))).collect()));
                        let mut vj = J::obj();
                        vj.set("tags", J::Arr(vec![J::s(v.tag)]));
                        vj.set("sig", J::s(sig));
                        vj.set("msg", J::s(msg));
                        o.set("violation", vj.clone());
                        // keep the failing image's file listing for the reader
                        let listing: Vec<J> = crate::audit::list_dir(&img).3.into_iter().map(J::s).collect();
                        o.set("image_other_files", J::Arr(listing));
                        let (t_, b_, v_, _) = crate::audit::list_dir(&img);
                        o.set("image_tables", J::Arr(t_.iter().map(|x| J::i(*x)).collect()));
                        o.set("image_blobs", J::Arr(b_.iter().map(|x| J::i(*x)).collect()));
                        o.set("image_versions", J::Arr(v_.iter().map(|x| J::i(*x)).collect()));
                        let _ = std::fs::write(&path, o.render());
                        vj.set("replay", J::s(path.to_string_lossy().to_string()));
                        violations.push(vj);
                    }
                }
            }
        }
        fs.apply(e);
        mutation_no += 1;
        bump(&mut counters, "mutation_prefixes", 1);
        bump(&mut counters, &format!("mutation:{t}"), 1);
    }
    let _ = std::fs::remove_dir_all(&img);

    let hash = fnv64(format!("{}{:?}", c.cfg.describe().render(), c.history).as_bytes());
    let mut rep = J::obj();
    rep.set("engine", J::s("crash"));
    rep.set("seed", J::i(seed));
    rep.set("case", J::i(case));
    rep.set("cases", J::i(1));
    rep.set("hash", J::s(format!("{hash:016x}")));
    rep.set("ops", J::i(c.history.len()));
    rep.set("aborted", aborted.map_or(J::Null, J::s));
    rep.set("truncated_by_time_limit", J::Bool(truncated));
    rep.set("counters", J::Obj(counters.iter().map(|(k, v)| (k.clone(), J::i(*v))).collect()));
    rep.set("violations", J::Arr(violations));
    rep.set(
        "known_hits",
        J::Arr(
            known_hits
                .iter()
                .map(|(k, (n, m))| {
                    let mut o = J::obj();
                    o.set("key", J::s(k.clone()));
                    o.set("count", J::i(*n));
                    o.set("example", J::s(m.clone()));
                    o
                })
                .collect(),
        ),
    );
    let mut sample = J::obj();
    sample.set("config", c.cfg.describe());
    sample.set("ops", J::Arr(c.history.iter().enumerate().map(|(i, op)| J::s(format!("#{i} {}", op.render(&c.uni)))).collect()));
    rep.set("sample", sample);
    rep.set("wall_s", J::Num(start.elapsed().as_secs_f64()));
    let text = rep.render();
    if out.is_empty() {
        println!("{text}");
    } else {
        std::fs::write(&out, text).expect("write report");
    }
    if args.s("scratch", "").is_empty() {
        let _ = std::fs::remove_dir_all(&scratch);
    }
    0
}
