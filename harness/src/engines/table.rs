//! Engine `table` (C12): sorted multi-version item streams written through `table::Writer`,
//! recovered with `Table::recover`, and read back through every read path. The oracle is the
//! generated stream itself. No tree, no memtable: small enough to also run under Miri.

use crate::inst::{bump, Counters, Violation};
use crate::json::{esc, J};
use crate::rng::{fnv64, Rng};
use crate::Args;
use lsm_tree::config::BloomConstructionPolicy;
use lsm_tree::table::filter::standard_bloom::Builder as BloomBuilder;
use lsm_tree::table::Writer;
use lsm_tree::{Cache, CompressionType, DescriptorTable, InternalValue, SeqNo, Table, UserKey, ValueType};
use std::collections::BTreeSet;
use std::ops::Bound;
use std::path::Path;
use std::sync::Arc;
use std::time::{Duration, Instant};

type Key = Vec<u8>;

#[derive(Clone, Debug, PartialEq, Eq)]
pub struct Item {
    pub key: Key,
    pub seqno: u64,
    pub ty: u8, // 0 value, 1 tombstone, 2 weak tombstone, 4 pointer
    pub value: Vec<u8>,
}

#[derive(Clone, Debug)]
pub struct Settings {
    pub block_size: u32,
    pub restart: u8,
    pub hash_ratio: f32,
    pub part_index: bool,
    pub part_filter: bool,
    pub part_size: u32,
    pub bloom: u8, // 0 off, 1 bpk 1, 2 bpk 10, 3 fpr .01, 4 fpr 1e-4
    pub data_lz4: bool,
    pub index_lz4: bool,
    pub pin_filter: bool,
    pub pin_index: bool,
    pub cache_bytes: u64,
    pub fd_table: Option<usize>,
    pub global_seqno: u64,
    pub link_blob: bool,
}

impl Settings {
    fn random(rng: &mut Rng, small: bool) -> Self {
        Self {
            block_size: *rng.pick(if small { &[1, 16, 64, 128][..] } else { &[1, 16, 64, 256, 1024, 4096, 8192][..] }),
            restart: *rng.pick(&[1, 2, 3, 4, 16, 32]),
            hash_ratio: *rng.pick(&[0.0, 0.0, 0.5, 0.75, 8.0]),
            part_index: rng.chance(1, 2),
            part_filter: rng.chance(1, 2),
            part_size: *rng.pick(&[1, 32, 128, 1024, 4096]),
            bloom: *rng.pick(&[0, 1, 2, 2, 3, 4]),
            data_lz4: rng.chance(1, 3),
            index_lz4: rng.chance(1, 4),
            pin_filter: rng.chance(1, 2),
            pin_index: rng.chance(1, 2),
            cache_bytes: *rng.pick(&[0, 0, 1 << 20]),
            fd_table: *rng.pick(&[None, Some(1), Some(8)]),
            global_seqno: if rng.chance(1, 3) { rng.range(1, 1000) } else { 0 },
            link_blob: rng.chance(1, 4),
        }
    }

    fn describe(&self) -> J {
        let mut o = J::obj();
        o.set("block_size", J::i(self.block_size));
        o.set("restart", J::i(self.restart));
        o.set("hash_ratio", J::Num(f64::from(self.hash_ratio)));
        o.set("part_index", J::Bool(self.part_index));
        o.set("part_filter", J::Bool(self.part_filter));
        o.set("part_size", J::i(self.part_size));
        o.set("bloom", J::i(self.bloom));
        o.set("data_lz4", J::Bool(self.data_lz4));
        o.set("index_lz4", J::Bool(self.index_lz4));
        o.set("pin_filter", J::Bool(self.pin_filter));
        o.set("pin_index", J::Bool(self.pin_index));
        o.set("cache_bytes", J::i(self.cache_bytes));
        o.set("fd_table", self.fd_table.map_or(J::Null, J::i));
        o.set("global_seqno", J::i(self.global_seqno));
        o
    }
}

fn varint(mut x: u64, out: &mut Vec<u8>) {
    loop {
        let b = (x & 0x7f) as u8;
        x >>= 7;
        if x == 0 {
            out.push(b);
            break;
        }
        out.push(b | 0x80);
    }
}

fn gen_key(rng: &mut Rng, style: u64, i: usize) -> Key {
    match (style, rng.below(8)) {
        (_, 0) => vec![rng.range(1, 255) as u8],
        (0, _) => format!("key{:05}", i * 3 + rng.usize(3)).into_bytes(),
        (1, _) => {
            // long shared prefix
            let mut k = vec![b'p'; 40 + rng.usize(30)];
            k.extend_from_slice(format!("{:06}", i * 7 + rng.usize(7)).as_bytes());
            k
        }
        (2, _) => {
            // keys that are prefixes of each other
            let mut k = b"q".to_vec();
            for _ in 0..(i % 9) {
                k.push(b'a' + (i % 3) as u8);
            }
            k.extend_from_slice(&[b'a' + rng.below(3) as u8]);
            k
        }
        (3, _) => {
            let n = rng.range(1, 12) as usize;
            (0..n).map(|_| rng.below(256) as u8).collect()
        }
        (4, 1) => {
            // 2 KiB keys
            let mut k = vec![b'L'; 2048];
            k.extend_from_slice(format!("{:05}", i).as_bytes());
            k
        }
        _ => {
            let mut k = format!("k{:04}", i).into_bytes();
            if rng.chance(1, 5) {
                k.push(0xFF);
            }
            if rng.chance(1, 9) {
                k.push(0xFF);
            }
            k
        }
    }
}

/// Many tiny entries: hundreds of restart intervals per data block (limits of the binary / hash index).
pub fn gen_dense_stream(rng: &mut Rng) -> Vec<Item> {
    let n = rng.range(300, 3000) as usize;
    let mut out = Vec::with_capacity(n);
    let mut seq_base = rng.range(1, 1000);
    for i in 0..n {
        let key = format!("{:04x}", i * 2 + 1).into_bytes();
        let versions = if rng.chance(1, 20) { 2 } else { 1 };
        for v in 0..versions {
            let ty = match rng.below(16) {
                0 => 1u8,
                1 => 2,
                _ => 0,
            };
            let value = if ty == 0 { vec![b'v'; rng.below(4) as usize] } else { vec![] };
            out.push(Item { key: key.clone(), seqno: seq_base + 10 - v, ty, value });
        }
        seq_base += rng.below(3);
    }
    out
}

pub fn gen_stream(rng: &mut Rng, max_entries: usize, small: bool) -> Vec<Item> {
    let style = rng.below(6);
    let n_keys = rng.range(1, if small { 14 } else { 90 }) as usize;
    let mut keys: BTreeSet<Key> = BTreeSet::new();
    for i in 0..n_keys {
        let k = gen_key(rng, style, i);
        if !k.is_empty() {
            keys.insert(k);
        }
    }
    let mut out = vec![];
    let mut uid = 0u64;
    let big_slab_key = rng.usize(keys.len().max(1));
    for (ki, k) in keys.iter().enumerate() {
        let versions = if ki == big_slab_key && rng.chance(1, 3) {
            rng.range(8, if small { 10 } else { 40 }) // a version slab spanning several blocks
        } else {
            match rng.below(6) {
                0..=2 => 1,
                3 | 4 => rng.range(2, 4),
                _ => rng.range(4, 12),
            }
        };
        let mut seq = rng.range(versions, 3000);
        for _ in 0..versions {
            uid += 1;
            let ty = match rng.below(12) {
                0 | 1 => 1u8,
                2 => 2,
                3 | 4 => 4,
                _ => 0,
            };
            let value = match ty {
                1 | 2 => vec![],
                4 => {
                    let mut v = vec![];
                    varint(rng.below(1 << 20), &mut v); // offset
                    varint(rng.below(4), &mut v); // blob file id
                    varint(rng.range(1, 5000), &mut v); // on-disk size
                    varint(rng.range(1, 5000), &mut v); // size
                    v
                }
                _ => {
                    let len = match rng.below(10) {
                        0 => 0,
                        1..=6 => rng.range(1, 40) as usize,
                        7 | 8 => rng.range(40, 400) as usize,
                        _ => rng.range(400, if small { 600 } else { 9000 }) as usize, // larger than a block
                    };
                    crate::keys::value(uid, len)
                }
            };
            out.push(Item { key: k.clone(), seqno: seq, ty, value });
            if out.len() >= max_entries {
                return out;
            }
            let gap = rng.range(1, 50);
            if seq < gap {
                break;
            }
            seq -= gap;
        }
    }
    out
}

fn to_vt(t: u8) -> ValueType {
    match t {
        1 => ValueType::Tombstone,
        2 => ValueType::WeakTombstone,
        4 => ValueType::Indirection,
        _ => ValueType::Value,
    }
}

fn of_vt(v: ValueType) -> u8 {
    match v {
        ValueType::Value => 0,
        ValueType::Tombstone => 1,
        ValueType::WeakTombstone => 2,
        ValueType::Indirection => 4,
    }
}

fn conv(i: &InternalValue) -> Item {
    Item { key: i.key.user_key.to_vec(), seqno: i.key.seqno, ty: of_vt(i.key.value_type), value: i.value.to_vec() }
}

fn fail(sig: &str, msg: String) -> Violation {
    Violation::new(&["C12"], sig, msg)
}

fn show(i: Option<&Item>) -> String {
    i.map_or("<none>".into(), |i| format!("{:?}@{} ty={} len={}", esc(&i.key[..i.key.len().min(24)]), i.seqno, i.ty, i.value.len()))
}

fn first_diff(exp: &[Item], got: &[Item]) -> String {
    for j in 0..exp.len().max(got.len()) {
        if exp.get(j) != got.get(j) {
            return format!("position {j}: expected {} got {} (expected {} items, got {})", show(exp.get(j)), show(got.get(j)), exp.len(), got.len());
        }
    }
    "identical".into()
}

pub fn write_table(path: &Path, s: &Settings, stream: &[Item]) -> lsm_tree::Result<Option<(u64, lsm_tree::Checksum)>> {
    let lz = |b: bool| if b { CompressionType::Lz4 } else { CompressionType::None };
    let mut w = Writer::new(path.to_path_buf(), 7, 0)?;
    if s.part_index {
        w = w.use_partitioned_index();
    }
    if s.part_filter {
        w = w.use_partitioned_filter();
    }
    w = w
        .use_data_block_restart_interval(s.restart)
        .use_data_block_compression(lz(s.data_lz4))
        .use_index_block_compression(lz(s.index_lz4))
        .use_data_block_size(s.block_size)
        .use_data_block_hash_ratio(s.hash_ratio)
        .use_bloom_policy(match s.bloom {
            0 => BloomConstructionPolicy::BitsPerKey(0.0),
            1 => BloomConstructionPolicy::BitsPerKey(1.0),
            2 => BloomConstructionPolicy::BitsPerKey(10.0),
            3 => BloomConstructionPolicy::FalsePositiveRate(0.01),
            _ => BloomConstructionPolicy::FalsePositiveRate(0.0001),
        });
    if s.part_index || s.part_filter {
        w = w.use_meta_partition_size(s.part_size);
    }
    for it in stream {
        w.write(InternalValue::from_components(it.key.clone(), it.value.clone(), it.seqno, to_vt(it.ty)))?;
    }
    if s.link_blob {
        w.link_blob_file(3, 2, 100, 80);
    }
    w.finish()
}

pub fn open_table(path: &Path, s: &Settings, checksum: lsm_tree::Checksum, tree_id: u64) -> lsm_tree::Result<Table> {
    Table::recover(
        path.to_path_buf(),
        checksum,
        s.global_seqno,
        tree_id,
        Arc::new(Cache::with_capacity_bytes(s.cache_bytes)),
        s.fd_table.map(|n| Arc::new(DescriptorTable::new(n))),
        s.pin_filter,
        s.pin_index,
    )
}

/// Checks one table against its stream through every read path.
pub fn check_table(t: &Table, s: &Settings, stream: &[Item], rng: &mut Rng, c: &mut Counters, probe_budget: usize) -> Result<(), Violation> {
    let g = s.global_seqno;
    let shifted: Vec<Item> = stream.iter().map(|i| Item { seqno: i.seqno + g, ..i.clone() }).collect();

    // stored metadata
    let m = &t.metadata;
    let n_tomb = stream.iter().filter(|i| i.ty == 1 || i.ty == 2).count() as u64;
    let n_weak = stream.iter().filter(|i| i.ty == 2).count() as u64;
    let smin = stream.iter().map(|i| i.seqno).min().unwrap_or(0);
    let smax = stream.iter().map(|i| i.seqno).max().unwrap_or(0);
    if m.item_count != stream.len() as u64 {
        return Err(fail("meta:item_count", format!("item_count {} != {}", m.item_count, stream.len())));
    }
    if m.tombstone_count != n_tomb || m.weak_tombstone_count != n_weak {
        return Err(fail("meta:tombstones", format!("tombstone counts ({},{}) != ({n_tomb},{n_weak})", m.tombstone_count, m.weak_tombstone_count)));
    }
    if &**m.key_range.min() != stream[0].key.as_slice() || &**m.key_range.max() != stream[stream.len() - 1].key.as_slice() {
        return Err(fail("meta:key_range", format!("key range [{:?},{:?}] != stream's", esc(m.key_range.min()), esc(m.key_range.max()))));
    }
    if t.verif_seqno_range() != (smin, smax) || t.get_highest_seqno() != smax + g {
        return Err(fail("meta:seqnos", format!("seqno range {:?} (+{g}) != ({smin},{smax})", t.verif_seqno_range())));
    }
    bump(c, "metadata_checks", 1);

    // full scans through every path
    let collect = |it: &mut dyn Iterator<Item = lsm_tree::Result<InternalValue>>| -> Result<Vec<Item>, Violation> {
        let mut v = vec![];
        for x in it {
            match x {
                Ok(i) => v.push(conv(&i)),
                Err(e) => return Err(fail("read-error", format!("read returned Err: {e:?}"))),
            }
        }
        Ok(v)
    };
    let got = collect(&mut t.scan().map_err(|e| fail("read-error", format!("scan(): {e:?}")))?)?;
    if got != shifted {
        return Err(fail("scan", format!("scan(): {}", first_diff(&shifted, &got))));
    }
    let got = collect(&mut t.iter())?;
    if got != shifted {
        return Err(fail("iter", format!("iter(): {}", first_diff(&shifted, &got))));
    }
    let mut got = collect(&mut t.iter().rev())?;
    got.reverse();
    if got != shifted {
        return Err(fail("iter-rev", format!("iter().rev(): {}", first_diff(&shifted, &got))));
    }
    bump(c, "full_scans", 3);

    // ranged scans with ping-pong consumption
    let keys: Vec<&Key> = {
        let mut k: Vec<&Key> = stream.iter().map(|i| &i.key).collect();
        k.dedup();
        k
    };
    let shift = |k: &Key, rng: &mut Rng| -> Key {
        let mut k = k.clone();
        match rng.below(4) {
            0 => k.push(0),
            1 => {
                if let Some(l) = k.last_mut() {
                    if *l > 0 {
                        *l -= 1;
                        k.push(0xFF);
                    } else {
                        k.pop();
                    }
                }
                if k.is_empty() {
                    k.push(0);
                }
            }
            _ => {}
        }
        k
    };
    let n_ranges = (probe_budget / 8).clamp(4, 60);
    for _ in 0..n_ranges {
        let mut mk = |rng: &mut Rng| -> Bound<Key> {
            match rng.below(7) {
                0 => Bound::Unbounded,
                1..=3 => Bound::Included(shift(keys[rng.usize(keys.len())], rng)),
                _ => Bound::Excluded(shift(keys[rng.usize(keys.len())], rng)),
            }
        };
        let lo = mk(rng);
        let hi = mk(rng);
        let exp: Vec<Item> = shifted.iter().filter(|i| crate::model::in_bounds(&i.key, &lo, &hi)).cloned().collect();
        let to_uk = |b: &Bound<Key>| -> Bound<UserKey> {
            match b {
                Bound::Unbounded => Bound::Unbounded,
                Bound::Included(k) => Bound::Included(UserKey::from(k.as_slice())),
                Bound::Excluded(k) => Bound::Excluded(UserKey::from(k.as_slice())),
            }
        };
        let mut it = t.range((to_uk(&lo), to_uk(&hi)));
        let mode = rng.below(4);
        let (mut front, mut back) = (vec![], vec![]);
        let mut step = 0usize;
        let mut bits = String::new();
        loop {
            let f = match mode {
                0 => true,
                1 => false,
                2 => step % 2 == 0,
                _ => rng.chance(1, 2),
            };
            step += 1;
            if bits.len() < 48 {
                bits.push(if f { 'f' } else { 'b' });
            }
            let x = if f { it.next() } else { it.next_back() };
            match x {
                None => break,
                Some(Ok(i)) => {
                    if f {
                        front.push(conv(&i));
                    } else {
                        back.push(conv(&i));
                    }
                }
                Some(Err(e)) => return Err(fail("read-error", format!("range() returned Err: {e:?}"))),
            }
            if step > 1_000_000 {
                return Err(fail("range-no-termination", "range iterator does not terminate".into()));
            }
        }
        back.reverse();
        front.extend(back);
        bump(c, "range_cases", 1);
        if front != exp {
            return Err(fail(
                "range",
                format!("range({lo:?},{hi:?}) consumed [{bits}]: {}", first_diff(&exp, &front)).replace("Included", "=").replace("Excluded", "!"),
            ));
        }
    }

    // point lookups: every (key, seqno in {0, s-1, s, s+1, MAX}) within the probe budget, absent keys
    let mut probes: Vec<(Key, u64)> = vec![];
    for it in &shifted {
        for d in [0u64, it.seqno.saturating_sub(1), it.seqno, it.seqno + 1, SeqNo::MAX] {
            probes.push((it.key.clone(), d));
        }
    }
    for k in &keys {
        for _ in 0..2 {
            let a = shift(k, rng);
            probes.push((a, SeqNo::MAX));
        }
    }
    probes.push((vec![0], SeqNo::MAX));
    probes.push((vec![0xFF, 0xFF, 0xFF], SeqNo::MAX));
    if probes.len() > probe_budget {
        // keep a seeded subset (always including the MAX probes of a few keys)
        let mut keep = vec![];
        for _ in 0..probe_budget {
            keep.push(probes[rng.usize(probes.len())].clone());
        }
        probes = keep;
    }
    for (k, sq) in &probes {
        let exp = shifted.iter().find(|i| &i.key == k && i.seqno < *sq);
        let h = BloomBuilder::get_hash(k);
        let got = t.get(k, *sq, h).map_err(|e| fail("read-error", format!("get() returned Err: {e:?}")))?;
        let got = got.as_ref().map(conv);
        bump(c, "point_probes", 1);
        if got.as_ref() != exp {
            let sig = if exp.is_some() && got.is_none() && *sq == SeqNo::MAX { "get:written-key-not-found" } else { "get" };
            return Err(fail(sig, format!("get({:?}, {sq}) expected {} got {}", esc(&k[..k.len().min(24)]), show(exp), show(got.as_ref()))));
        }
    }
    Ok(())
}

pub fn run_case(seed: u64, case: u64, scratch: &Path, c: &mut Counters, small: bool, probe_budget: usize) -> (Option<Violation>, J, u64, bool) {
    let mut rng = Rng::derive(seed, case ^ 0x7ab1e);
    let mut s = Settings::random(&mut rng, small);
    let dense = !small && rng.chance(1, 8);
    let stream = if dense {
        s.block_size = *rng.pick(&[4096, 8192, 16_384, 65_536]);
        s.restart = *rng.pick(&[1, 1, 2, 16]);
        s.hash_ratio = *rng.pick(&[0.0, 0.5, 0.75, 8.0]);
        gen_dense_stream(&mut rng)
    } else {
        gen_stream(&mut rng, if small { 60 } else { 400 }, small)
    };
    let mut sample = J::obj();
    sample.set("settings", s.describe());
    sample.set("entries", J::i(stream.len()));
    sample.set(
        "first_entries",
        J::Arr(stream.iter().take(6).map(|i| J::s(format!("{:?}@{} ty={} len={}", esc(&i.key[..i.key.len().min(20)]), i.seqno, i.ty, i.value.len()))).collect()),
    );
    let hash = fnv64(format!("{s:?}{}", stream.iter().map(|i| format!("{:?}", (&i.key, i.seqno, i.ty, i.value.len()))).collect::<String>()).as_bytes());
    let distinct_keys = stream.iter().map(|i| &i.key).collect::<BTreeSet<_>>().len();
    let nontrivial = stream.len() >= 3 && (distinct_keys >= 2 || stream.len() >= 5);
    if stream.is_empty() {
        return (None, sample, hash, false);
    }
    let _ = std::fs::create_dir_all(scratch);
    let path = scratch.join(format!("tbl-{case}"));
    let _ = std::fs::remove_file(&path);
    let r = std::panic::catch_unwind(std::panic::AssertUnwindSafe(|| -> Result<(), Violation> {
        let Some((_, checksum)) = write_table(&path, &s, &stream).map_err(|e| fail("write-error", format!("writer returned Err: {e:?}")))? else {
            return Err(fail("write-empty", "writer produced no table for a non-empty stream".into()));
        };
        let t = open_table(&path, &s, checksum, case).map_err(|e| fail("recover-error", format!("Table::recover returned Err: {e:?}")))?;
        bump(c, "tables", 1);
        if dense {
            bump(c, "dense_tables", 1);
        }
        bump(c, "entries", stream.len() as u64);
        bump(c, &format!("blocks:{}", t.metadata.data_block_count.min(5)), 1);
        if t.metadata.data_block_count > 1 {
            bump(c, "multi_block_tables", 1);
        }
        bump(c, &format!("setting:block_size={}", s.block_size), 1);
        bump(c, &format!("setting:restart={}", s.restart), 1);
        bump(c, &format!("setting:part_index={}", s.part_index), 1);
        bump(c, &format!("setting:part_filter={}", s.part_filter), 1);
        bump(c, &format!("setting:bloom={}", s.bloom), 1);
        bump(c, &format!("setting:hash={}", s.hash_ratio), 1);
        bump(c, &format!("setting:global_seqno_nonzero={}", s.global_seqno > 0), 1);
        check_table(&t, &s, &stream, &mut rng, c, if probe_budget > 0 { probe_budget } else if small { 120 } else if dense { 4000 } else { 600 })
    }));
    let _ = std::fs::remove_file(&path);
    let v = match r {
        Ok(Ok(())) => None,
        Ok(Err(v)) => Some(v),
        Err(_) => {
            let p = crate::hooks::take_panic().unwrap_or_default();
            Some(Violation::new(&["C12"], format!("panic:{}", p.rsplit(" @ ").next().unwrap_or("")), format!("panic: {p}")))
        }
    };
    (v, sample, hash, nontrivial)
}

pub fn cmd(args: &Args) -> i32 {
    let seed = args.u("seed", 1);
    let shard = args.u("shard", 0);
    let max_cases = args.u("cases", 100);
    let limit = Duration::from_secs(args.u("time-limit", 30));
    let small = args.s("small", "false") == "true";
    let probe_budget = args.u("probe-budget", 0) as usize;
    let out = args.s("out", "");
    let replay_dir = std::path::PathBuf::from(args.s("replay-dir", "/verif/replays"));
    let scratch = crate::scratch_dir(args);
    if args.s("no-panic-hook", "false") != "true" {
        crate::hooks::install_panic_capture();
    }
    crate::hooks::install_clock();
    let start = Instant::now();
    let mut c = Counters::new();
    let (mut hashes, mut nontrivial) = (BTreeSet::new(), BTreeSet::new());
    let mut violations = vec![];
    let mut samples = vec![];
    let mut seen = BTreeSet::new();
    let mut cases = 0;
    while cases < max_cases && start.elapsed() < limit {
        let case_no = shard * 1_000_000 + cases;
        let (v, sample, hash, nt) = run_case(seed, case_no, &scratch, &mut c, small, probe_budget);
        cases += 1;
        hashes.insert(hash);
        if nt {
            nontrivial.insert(hash);
            if samples.len() < 2 {
                samples.push(sample.clone());
            }
        }
        if let Some(v) = v {
            if seen.insert(v.sig.clone()) && violations.len() < 4 {
                let _ = std::fs::create_dir_all(&replay_dir);
                let path = replay_dir.join(format!("table-s{seed}-c{case_no}.json"));
                let mut o = J::obj();
                o.set("engine", J::s("table"));
                o.set("seed", J::i(seed));
                o.set("case", J::i(case_no));
                o.set("small", J::Bool(small));
                o.set("probe_budget", J::i(probe_budget));
                o.set("case_description", sample);
                let mut vj = J::obj();
                vj.set("tags", J::Arr(v.tags.iter().map(|t| J::s(t.clone())).collect()));
                vj.set("sig", J::s(v.sig.clone()));
                vj.set("msg", J::s(v.msg.clone()));
                o.set("violation", vj.clone());
                let _ = std::fs::write(&path, o.render());
                vj.set("replay", J::s(path.to_string_lossy().to_string()));
                violations.push(vj);
            }
        }
    }
    let mut rep = J::obj();
    rep.set("engine", J::s("table"));
    rep.set("seed", J::i(seed));
    rep.set("shard", J::i(shard));
    rep.set("cases", J::i(cases));
    rep.set("distinct", J::Arr(hashes.iter().map(|h| J::s(format!("{h:016x}"))).collect()));
    rep.set("nontrivial", J::Arr(nontrivial.iter().map(|h| J::s(format!("{h:016x}"))).collect()));
    rep.set("counters", J::Obj(c.iter().map(|(k, v)| (k.clone(), J::i(*v))).collect()));
    rep.set("violations", J::Arr(violations));
    rep.set("samples", J::Arr(samples));
    rep.set("known_hits", J::Arr(vec![]));
    rep.set("wall_s", J::Num(start.elapsed().as_secs_f64()));
    let text = rep.render();
    if out.is_empty() {
        println!("{text}");
    } else {
        std::fs::write(&out, text).expect("write report");
    }
    if args.s("scratch", "").is_empty() {
        let _ = std::fs::remove_dir_all(&scratch);
    }
    0
}

pub fn replay(j: &J, scratch: &Path) -> i32 {
    let seed = j.get("seed").and_then(J::as_i64).unwrap_or(1) as u64;
    let case = j.get("case").and_then(J::as_i64).unwrap_or(0) as u64;
    let small = matches!(j.get("small"), Some(J::Bool(true)));
    let mut c = Counters::new();
    let pb = j.get("probe_budget").and_then(J::as_i64).unwrap_or(0) as usize;
    let (v, sample, _, _) = run_case(seed, case, scratch, &mut c, small, pb);
    match v {
        Some(v) => {
            println!("REPLAY-VIOLATION tags={} sig={}", v.tags.join(","), v.sig);
            println!("{}", v.msg);
            println!("{}", sample.render());
            1
        }
        None => {
            println!("REPLAY-OK no violation reproduced");
            0
        }
    }
}
