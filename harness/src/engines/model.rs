//! Engine `model`: seeded histories executed against real trees with all monitors on.
//!
//! Modes: single instance, lock-step group (same history, different configurations: twins for
//! C08, tuning groups for C11), shared-cache group (different histories, one cache / fd table).

use crate::cfg::{KvCfg, TreeCfg};
use crate::hooks;
use crate::inst::{bump, Counters, InstOpts, Instance, Violation};
use crate::json::J;
use crate::keys::Universe;
use crate::ops::{self, BoundSpec, Op, Profile};
use crate::rng::{fnv64, Rng};
use lsm_tree::{Cache, DescriptorTable};
use std::collections::BTreeSet;
use std::ops::Bound;
use std::path::{Path, PathBuf};
use std::sync::Arc;
use std::time::Instant;

#[derive(Clone, Copy, PartialEq, Eq, Debug)]
pub enum Mode {
    Single,
    /// standard tree + blob trees on one history
    Twins,
    /// several physical configurations on one history
    Tuning,
    /// different histories sharing one cache and descriptor table
    Shared,
    Fifo,
}

pub struct CaseResult {
    pub violation: Option<Violation>,
    pub failed_at: Option<usize>,
    pub counters: Counters,
    pub layouts: BTreeSet<String>,
    pub ops_total: usize,
    pub hash: u64,
    pub sample: J,
    pub pairs: BTreeSet<String>,
    pub known_hits: std::collections::BTreeMap<String, (u64, String)>,
    pub other_hits: std::collections::BTreeMap<String, (u64, String)>,
}

pub struct Case {
    pub profile: Profile,
    pub mode: Mode,
    pub uni: Arc<Universe>,
    pub cfgs: Vec<TreeCfg>,
    pub filter_seed: Option<u64>,
    /// one op list per instance in Shared mode, otherwise one list shared by all
    pub histories: Vec<Vec<Op>>,
    pub obs_seed: u64,
    /// "MVCC by data" (InstOpts::detached)
    pub detached: bool,
}

fn degroup(ops: &mut [Op], nkeys: usize) {
    // table-boundary bounds would resolve differently per instance; use universe keys instead
    let conv = |b: &mut BoundSpec| match b.clone() {
        BoundSpec::TableMin { t, incl, delta } | BoundSpec::TableMax { t, incl, delta } => {
            *b = BoundSpec::Key { k: t % nkeys.max(1), incl, delta };
        }
        _ => {}
    };
    for op in ops.iter_mut() {
        if let Op::DropRange { lo, hi } = op {
            conv(lo);
            conv(hi);
        }
    }
}

pub fn build_case(profile_name: &str, mode: Mode, seed: u64, case: u64) -> Case {
    let profile = ops::profile(profile_name).unwrap_or_else(|| ops::profile("point").expect("point profile"));
    let mut rng = Rng::derive(seed, case.wrapping_mul(0x1000) ^ fnv64(profile_name.as_bytes()));
    let uni = if mode == Mode::Fifo {
        Arc::new(Universe { keys: vec![], class: vec![] })
    } else {
        Arc::new(Universe::generate(&mut rng, profile.n_g, profile.n_w, profile.n_d))
    };
    // NOTE: a compaction filter makes logical content depend on *when* compactions see an entry
    // (a replaced value may be shown to the filter again), so lock-step groups run without one
    let filter_ok = matches!(mode, Mode::Single | Mode::Shared);
    let filter_seed = if filter_ok && rng.below(100) < u64::from(profile.filter_pct) { Some(rng.next_u64()) } else { None };
    let obs_seed = rng.next_u64();
    // a quarter of the single-tree histories of the read-semantics profiles run detached from the tree's counters
    // (derived from the case number, not drawn: the histories of the other cases stay what they were)
    let detached = mode == Mode::Single && matches!(profile.name, "point" | "snapshot" | "scan" | "weak") && fnv64(&case.to_le_bytes()) % 4 == 0;
    let filter_seed = if detached { None } else { filter_seed };

    let mut cfgs = vec![];
    let mut histories = vec![];
    match mode {
        Mode::Single => {
            let blob = rng.below(100) < u64::from(profile.blob_pct);
            let cfg = TreeCfg::random(&mut rng, Some(blob));
            let h = ops::gen_history(&mut rng, &profile, &uni, &cfg.thresholds());
            cfgs.push(cfg);
            histories.push(h);
        }
        Mode::Fifo => {
            let blob = rng.chance(1, 3);
            let mut cfg = TreeCfg::random(&mut rng, Some(blob));
            // FIFO requires everything in L0; keep flush tables small and fd table sane
            if let Some(kv) = cfg.kv.as_mut() {
                kv.threshold = *rng.pick(&[8, 64, 1024]);
            }
            cfgs.push(cfg);
            histories.push(ops::gen_fifo_history(&mut rng));
        }
        Mode::Twins => {
            let base = TreeCfg::random(&mut rng, Some(false));
            let n_blob = rng.range(1, 3);
            cfgs.push(base.clone());
            let mut thr = base.thresholds();
            for _ in 0..n_blob {
                let mut c = if rng.chance(1, 2) { base.clone() } else { TreeCfg::random(&mut rng, Some(false)) };
                let kv = KvCfg::random(&mut rng);
                thr.push(kv.threshold);
                c.kv = Some(kv);
                cfgs.push(c);
            }
            let mut h = ops::gen_history(&mut rng, &profile, &uni, &thr);
            degroup(&mut h, uni.keys.len());
            histories.push(h);
        }
        Mode::Tuning => {
            let n = rng.range(3, 5);
            let mut thr = vec![];
            for _ in 0..n {
                let mut c = TreeCfg::random(&mut rng, Some(false));
                if profile.name == "dense" {
                    // large blocks, dense restart points: hundreds of restart intervals per block
                    c.block_size = vec![*rng.pick(&[4096, 16_384, 65_536])];
                    c.restart = vec![*rng.pick(&[1, 1, 2, 16])];
                    c.hash_ratio = vec![*rng.pick(&[0.0, 0.75, 8.0])];
                }
                if profile.name == "wide" {
                    // bloom filters on every level; the first tree of the group partitions filter and index (pinned: the
                    // tree only supports pinned partitioned filters), the others vary
                    c.block_size = vec![*rng.pick(&[64, 256])];
                    c.filter = vec![*rng.pick(&[2, 3, 4])];
                    c.expect_hits = false;
                    if cfgs.is_empty() {
                        c.filter_part = vec![true];
                        c.pin_filter = vec![true];
                        c.index_part = vec![true];
                    }
                }
                thr.extend(c.thresholds());
                cfgs.push(c);
            }
            let mut h = ops::gen_history(&mut rng, &profile, &uni, &thr);
            degroup(&mut h, uni.keys.len());
            histories.push(h);
        }
        Mode::Shared => {
            let n = rng.range(2, 3);
            for _ in 0..n {
                let mut c = TreeCfg::random(&mut rng, None);
                c.cache_bytes = 0; // replaced by the shared cache
                let mut p = profile.clone();
                p.max_ops = p.max_ops.min(140);
                let h = ops::gen_history(&mut rng, &p, &uni, &c.thresholds());
                cfgs.push(c);
                histories.push(h);
            }
        }
    }

    Case { profile, mode, uni, cfgs, filter_seed, histories, obs_seed, detached }
}

fn case_hash(c: &Case) -> u64 {
    let mut s = String::new();
    for cfg in &c.cfgs {
        s.push_str(&cfg.describe().render());
    }
    for h in &c.histories {
        for op in h {
            s.push_str(&format!("{op:?};"));
        }
    }
    fnv64(s.as_bytes())
}

fn cross_compare(insts: &[Instance], tags: &[&str]) -> Result<(), Violation> {
    if insts.len() < 2 {
        return Ok(());
    }
    // newest view and every held snapshot slot
    let slots = insts[0].snaps.len();
    let mut sels: Vec<Option<usize>> = vec![None];
    for i in 0..slots {
        if insts.iter().all(|x| x.snaps.get(i).is_some_and(Option::is_some)) {
            sels.push(Some(i));
        }
    }
    for sel in sels {
        let mut dumps = vec![];
        let mut unknown: BTreeSet<Vec<u8>> = BTreeSet::new();
        for inst in insts {
            let s = match sel {
                None => u64::MAX,
                Some(i) => inst.snaps[i].expect("checked").seq,
            };
            let d = inst.logical_dump(s).map_err(|e| Violation::new(tags, "twin-dump-error", format!("scan failed on {}: {e}", inst.dir.display())))?;
            let (_, unk) = inst.model.world_for(s).scan(s, &Bound::Unbounded, &Bound::Unbounded);
            unknown.extend(unk);
            dumps.push(d);
        }
        let strip = |d: &Vec<(Vec<u8>, Vec<u8>)>| -> Vec<(Vec<u8>, Vec<u8>)> { d.iter().filter(|(k, _)| !unknown.contains(k)).cloned().collect() };
        let first = strip(&dumps[0]);
        for (i, d) in dumps.iter().enumerate().skip(1) {
            let d = strip(d);
            if d != first {
                let pos = (0..first.len().max(d.len())).find(|&j| first.get(j) != d.get(j)).unwrap_or(0);
                return Err(Violation::new(
                    tags,
                    "twin-divergence",
                    format!(
                        "trees fed the same history disagree at {}: instance 0 has {:?}, instance {i} has {:?} (item #{pos})",
                        sel.map_or("newest snapshot".to_string(), |s| format!("held snapshot slot {s}")),
                        first.get(pos).map(|(k, v)| (crate::json::esc(k), crate::json::esc(&v[..v.len().min(16)]))),
                        d.get(pos).map(|(k, v)| (crate::json::esc(k), crate::json::esc(&v[..v.len().min(16)]))),
                    ),
                ));
            }
        }
    }
    Ok(())
}

/// Runs one case; `keep` restricts the executed op indices (shrinking / replay).
pub fn run_case(case: &Case, keep: Option<&BTreeSet<usize>>, scratch: &Path, case_tag: &str, known: &Arc<BTreeSet<(String, String)>>, focus: &Option<String>) -> CaseResult {
    let base = scratch.join(format!("case-{case_tag}"));
    let _ = std::fs::remove_dir_all(&base);
    std::fs::create_dir_all(&base).expect("scratch dir");
    let _ = hooks::drain_installs();
    hooks::CLOCK_NS.store(hooks::CLOCK_BASE_NS, std::sync::atomic::Ordering::SeqCst);

    let shared = if case.mode == Mode::Shared {
        let mut r = Rng::new(case.obs_seed ^ 0x5A5A);
        let cache = Arc::new(Cache::with_capacity_bytes(*r.pick(&[4096, 16 << 20])));
        let fdt = Some(Arc::new(DescriptorTable::new(*r.pick(&[1, 2, 8]))));
        Some((cache, fdt))
    } else {
        None
    };

    let mut result = CaseResult {
        violation: None,
        failed_at: None,
        counters: Counters::new(),
        layouts: BTreeSet::new(),
        ops_total: 0,
        hash: case_hash(case),
        sample: J::Null,
        pairs: BTreeSet::new(),
        known_hits: Default::default(),
        other_hits: Default::default(),
    };

    let mut group_tags: Vec<&'static str> = match case.mode {
        Mode::Twins => vec!["C08"],
        Mode::Tuning => vec!["C11"],
        Mode::Shared => vec!["C11"],
        _ => vec![],
    };
    // A history generated by the profile of a property lies inside that property's quantifier as a whole ("all
    // histories in which ingestions are interleaved with writes, snapshots, flushes, compactions ..."): a wrong read
    // anywhere in it refutes that property too, also when it only shows after a later compaction (seed C14b: an
    // ingested tombstone lost by a later merge was attributed to the compaction, i.e. to C01, and ignored by the C14
    // check).
    if let Some(t) = match case.profile.name {
        "point" => Some("C01"),
        // thousands of keys per table: point reads behind several filter / index partitions (seed C01f)
        "wide" => Some("C01"),
        "snapshot" => Some("C02"),
        "scan" => Some("C03"),
        "reopen" => Some("C04"),
        "weak" => Some("C13"),
        "ingest" => Some("C14"),
        "drop" => Some("C15"),
        "filter" => Some("C17"),
        _ => None,
    } {
        if !group_tags.contains(&t) {
            group_tags.push(t);
        }
    }

    let mut insts: Vec<Instance> = vec![];
    for (i, cfg) in case.cfgs.iter().enumerate() {
        let dir: PathBuf = base.join(format!("t{i}"));
        let opts = InstOpts {
            detached: case.detached,
            filter_seed: case.filter_seed,
            shared: shared.clone(),
            obs_seed: case.obs_seed.wrapping_add(i as u64 * if case.mode == Mode::Shared { 7 } else { 0 }),
            scan_cases: if case.profile.name == "scan" { 6 } else { 2 },
            fifo: case.mode == Mode::Fifo,
            fifo_desc: case.mode == Mode::Fifo && case.obs_seed % 2 == 1,
            known: known.clone(),
            focus: focus.clone(),
            filter_large_len: case.cfgs.iter().filter_map(|c| c.kv.as_ref().map(|k| k.threshold as usize + 3)).max().unwrap_or(300).max(12),
        };
        match Instance::create(&dir, cfg.clone(), case.uni.clone(), opts) {
            Ok(mut inst) => {
                inst.extra_tags = group_tags.clone();
                insts.push(inst);
            }
            Err(v) => {
                result.violation = Some(v);
                result.failed_at = Some(0);
                let _ = std::fs::remove_dir_all(&base);
                return result;
            }
        }
    }
    if case.mode == Mode::Tuning || case.mode == Mode::Shared {
        for a in 0..case.cfgs.len() {
            for b in (a + 1)..case.cfgs.len() {
                let da = case.cfgs[a].dims();
                let db = case.cfgs[b].dims();
                for (x, y) in da.iter().zip(db.iter()) {
                    if x.1 != y.1 {
                        result.pairs.insert(format!("{}:{}|{}", x.0, x.1.clone().min(y.1.clone()), x.1.clone().max(y.1.clone())));
                    }
                }
            }
        }
    }

    let max_len = case.histories.iter().map(Vec::len).max().unwrap_or(0);
    if case.detached {
        bump(&mut result.counters, "detached_histories", 1);
    }
    'outer: for idx in 0..max_len {
        if keep.is_some_and(|k| !k.contains(&idx)) {
            continue;
        }
        for (i, inst) in insts.iter_mut().enumerate() {
            let h = if case.histories.len() == 1 { &case.histories[0] } else { &case.histories[i] };
            let Some(op) = h.get(idx) else { continue };
            result.ops_total += 1;
            if let Err(mut v) = inst.exec(idx, op) {
                v.msg = format!("[instance {i}: {}] {}", if inst.is_blob() { "kv-separated" } else { "standard" }, v.msg);
                result.violation = Some(v);
                result.failed_at = Some(idx);
                break 'outer;
            }
        }
        if matches!(case.mode, Mode::Twins | Mode::Tuning) {
            let op = &case.histories[0][idx];
            if !op.is_write() {
                bump(&mut result.counters, "twin_comparisons", 1);
                if let Err(v) = cross_compare(&insts, &group_tags) {
                    result.violation = Some(v);
                    result.failed_at = Some(idx);
                    break 'outer;
                }
            }
        }
    }

    // final: one more full battery + close/reopen equality is part of the histories themselves
    for inst in &mut insts {
        for (k, v) in &inst.counters {
            bump(&mut result.counters, k, *v);
        }
        bump(&mut result.counters, "version_installs", inst.installs_seen);
        bump(&mut result.counters, "tables_scanned_by_auditor", inst.cache.tables_scanned);
        result.layouts.extend(inst.layouts.iter().cloned());
        for (k, (n, m)) in &inst.known_hits {
            let e = result.known_hits.entry(k.clone()).or_insert((0, m.clone()));
            e.0 += n;
        }
        for (k, (n, m)) in &inst.other_hits {
            let e = result.other_hits.entry(k.clone()).or_insert((0, m.clone()));
            e.0 += n;
        }
    }

    // sample rendering
    let mut s = J::obj();
    s.set("mode", J::s(format!("{:?}", case.mode)));
    s.set("profile", J::s(case.profile.name));
    s.set("configs", J::Arr(case.cfgs.iter().map(TreeCfg::describe).collect()));
    s.set("filter", J::Bool(case.filter_seed.is_some()));
    s.set("detached_counters", J::Bool(case.detached));
    s.set(
        "ops",
        J::Arr(
            case.histories[0]
                .iter()
                .enumerate()
                .filter(|(i, _)| keep.is_none_or(|k| k.contains(i)))
                .map(|(i, op)| J::s(format!("#{i} {}", op.render(&case.uni))))
                .collect(),
        ),
    );
    if let Some(inst) = insts.first() {
        if inst.tree.is_some() {
            s.set("final_layout", inst.describe_layout());
        }
    }
    result.sample = s;

    drop(insts);
    let _ = hooks::drain_installs();
    let _ = std::fs::remove_dir_all(&base);
    result
}

/// Greedy shrink: drop chunks of ops while a violation with the same signature persists.
pub fn shrink(case: &Case, v: &Violation, failed_at: usize, scratch: &Path, budget: usize, deadline: Instant, known: &Arc<BTreeSet<(String, String)>>, focus: &Option<String>) -> (BTreeSet<usize>, Violation) {
    let mut keep: BTreeSet<usize> = (0..=failed_at).collect();
    let mut best = v.clone();
    let mut runs = 0usize;
    let mut chunk = (keep.len() / 2).max(1);
    while chunk >= 1 && runs < budget && Instant::now() < deadline {
        let items: Vec<usize> = keep.iter().copied().collect();
        let mut progressed = false;
        let mut start = 0;
        while start < items.len() && runs < budget && Instant::now() < deadline {
            let drop_set: BTreeSet<usize> = items[start..(start + chunk).min(items.len())].iter().copied().collect();
            let trial: BTreeSet<usize> = keep.difference(&drop_set).copied().collect();
            if trial.is_empty() {
                start += chunk;
                continue;
            }
            runs += 1;
            let r = run_case(case, Some(&trial), scratch, "shrink", known, focus);
            if let Some(nv) = r.violation {
                if nv.sig == v.sig && nv.tags.iter().any(|t| v.tags.contains(t)) {
                    keep = trial;
                    best = nv;
                    progressed = true;
                }
            }
            start += chunk;
        }
        if !progressed {
            if chunk == 1 {
                break;
            }
            chunk /= 2;
        }
    }
    (keep, best)
}
