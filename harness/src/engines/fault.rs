//! Engine `fault` (C16): one injected file-system failure per run.
//!
//! `faultrun` executes a seeded history. Every call into the crate is bracketed by marker writes
//! (`M S` / `M R ok|err`), so the driver (tools/fault_shard.py) learns from a recording pass which
//! syscall ordinals lie inside which call, and then re-runs the history once per (call, syscall
//! class, ordinal) with `strace -e inject=<class>:error=<errno>:when=<ordinal>`.
//!
//! The harness does not need to know where the fault lands. Its invariant is generic: whenever a
//! call returns `Err` — reads at every snapshot still equal the model (unchanged), nothing is left
//! hidden, a copy of the directory reopens to the before- or after-state, the retried call
//! succeeds (the fault is one-shot), the history continues and the final reopen equals the model.

use crate::cfg::TreeCfg;
use crate::hooks;
use crate::inst::{InstOpts, Instance, Violation};
use crate::json::{esc, J};
use crate::keys::Universe;
use crate::model::{Expect, Model};
use crate::ops::{self, Op};
use crate::rng::{fnv64, Rng};
use crate::Args;
use lsm_tree::{AbstractTree, Guard, SequenceNumberCounter};
use std::collections::{BTreeMap, BTreeSet};
use std::io::Write;
use std::panic::{catch_unwind, AssertUnwindSafe};
use std::path::{Path, PathBuf};
use std::sync::Arc;

type Key = Vec<u8>;

pub struct FaultCase {
    pub cfg: TreeCfg,
    pub uni: Arc<Universe>,
    pub history: Vec<Op>,
}

pub fn build_case(seed: u64, case: u64) -> FaultCase {
    let mut rng = Rng::derive(seed, case ^ 0xFA17);
    let uni = Arc::new(Universe::generate(&mut rng, 10, 0, 5));
    let blob = rng.chance(1, 2);
    let mut cfg = TreeCfg::random(&mut rng, Some(blob));
    cfg.block_size = vec![*rng.pick(&[64, 256, 4096])];
    if let Some(kv) = cfg.kv.as_mut() {
        kv.threshold = *rng.pick(&[8, 64]);
        kv.file_target = *rng.pick(&[128, 64 << 20]);
    }
    let mut p = ops::profile("layout").expect("profile");
    use ops::Kind::*;
    p.weights = [0; ops::Kind::_Count as usize];
    for (k, w) in [
        (Put, 30), (Del, 8), (Batch, 5), (Rotate, 7), (Flush, 16), (FlushSealed, 2), (Leveled, 10), (Major, 7),
        (MoveDown, 2), (PullDown, 2), (Reopen, 2), (Ingest, 5), (DropRange, 4), (Clear, 2), (SnapOpen, 3), (SnapRelease, 2),
    ] {
        p.weights[k as usize] = w;
    }
    p.min_ops = 12;
    p.max_ops = 28;
    p.snap_slots = 2;
    let mut history = ops::gen_history(&mut rng, &p, &uni, &cfg.thresholds());
    if blob && rng.chance(1, 2) {
        // a blob file that is dead but still listed when the next merge runs (dead files leave the version one
        // merge late): overwrite a separated value, merge, then merge again - with faults in either merge
        let big = cfg.kv.as_ref().map_or(64, |k| k.threshold as usize + 8);
        let (k, j) = (rng.usize(uni.keys.len().max(1)), rng.usize(uni.keys.len().max(1)));
        let m = vec![
            Op::Put { k, vlen: big },
            Op::Flush { rotate: true, wm: 0 },
            Op::Put { k, vlen: big + 1 },
            Op::Flush { rotate: true, wm: 0 },
            Op::Major { target: u64::MAX, wm: 1000 },
            Op::Put { k: j, vlen: big },
            Op::Flush { rotate: true, wm: 0 },
            Op::Major { target: u64::MAX, wm: 1000 },
        ];
        let pos = rng.usize(history.len() + 1);
        history.splice(pos..pos, m);
    }
    if rng.chance(1, 3) {
        // several sealed memtables holding versions of one key when the next flush / compaction / ingestion runs (and
        // possibly fails): what a failed flush leaves behind in the synchronous API
        let k = rng.usize(uni.keys.len().max(1));
        let m = vec![Op::Put { k, vlen: 12 }, Op::Rotate, Op::Put { k, vlen: 13 }, Op::Rotate, Op::Del { k }, Op::Rotate, Op::Put { k, vlen: 14 }];
        let pos = rng.usize(history.len() + 1);
        history.splice(pos..pos, m);
    }
    for op in &mut history {
        match op {
            Op::Put { vlen, .. } => *vlen = (*vlen).min(200),
            // one call into the crate per op (exact fault windows)
            Op::Leveled { reps, .. } => *reps = 1,
            _ => {}
        }
    }
    FaultCase { cfg, uni, history }
}

/// (key -> (seqno, value hash)) of what a reopen must / may yield.
fn durable(model: &Model, keys: &[Key]) -> (BTreeMap<Key, (u64, u64)>, BTreeSet<Key>) {
    let mut m = model.clone();
    m.reopen();
    let mut d = BTreeMap::new();
    let mut u = BTreeSet::new();
    for k in keys {
        match m.read(k, u64::MAX) {
            Expect::Exact(Some((s, v))) => {
                d.insert(k.clone(), (s, fnv64(&v)));
            }
            Expect::Exact(None) => {}
            Expect::Unknown => {
                u.insert(k.clone());
            }
        }
    }
    (d, u)
}

fn copy_dir(src: &Path, dst: &Path) {
    let _ = std::fs::remove_dir_all(dst);
    let _ = std::fs::create_dir_all(dst);
    for sub in ["", "tables", "blobs"] {
        let s = src.join(sub);
        if !s.is_dir() {
            continue;
        }
        let _ = std::fs::create_dir_all(dst.join(sub));
        if let Ok(rd) = std::fs::read_dir(&s) {
            for e in rd.flatten() {
                if e.path().is_file() {
                    let _ = std::fs::copy(e.path(), dst.join(sub).join(e.file_name()));
                }
            }
        }
    }
}

fn dump_copy(cfg: &TreeCfg, dir: &Path) -> Result<BTreeMap<Key, (u64, u64)>, String> {
    let r = catch_unwind(AssertUnwindSafe(|| -> Result<BTreeMap<Key, (u64, u64)>, String> {
        let c = cfg.build(dir, SequenceNumberCounter::new(5_000_000), SequenceNumberCounter::new(5_000_000), None);
        let tree = c.open().map_err(|e| format!("Config::open failed: {e:?}"))?;
        let mut got = BTreeMap::new();
        for g in tree.iter(u64::MAX, None) {
            let (k, v) = g.into_inner().map_err(|e| format!("scan failed: {e:?}"))?;
            let e = tree.get_internal_entry(&k, u64::MAX).map_err(|e| format!("read failed: {e:?}"))?.ok_or("scan/point disagree")?;
            got.insert(k.to_vec(), (e.key.seqno, fnv64(&v)));
        }
        // usable: write, flush, compact
        tree.insert("zz-after-fault", "v", 6_000_000);
        tree.flush_active_memtable(0).map_err(|e| format!("flush on reopened copy failed: {e:?}"))?;
        tree.major_compact(u64::MAX, 0).map_err(|e| format!("major_compact on reopened copy failed: {e:?}"))?;
        Ok(got)
    }));
    match r {
        Ok(x) => x,
        Err(_) => Err(format!("panic: {}", hooks::take_panic().unwrap_or_default())),
    }
}

/// Like `same`, but ignoring sequence numbers (a failed ingestion may already be durable with the
/// sequence number of the failed attempt; the retry publishes the same values under a new one).
fn same_values(got: &BTreeMap<Key, (u64, u64)>, want: &(BTreeMap<Key, (u64, u64)>, BTreeSet<Key>)) -> bool {
    let f = |m: &BTreeMap<Key, (u64, u64)>| -> BTreeMap<Key, u64> { m.iter().filter(|(k, _)| !want.1.contains(*k)).map(|(k, v)| (k.clone(), v.1)).collect() };
    f(got) == f(&want.0)
}

fn same(got: &BTreeMap<Key, (u64, u64)>, want: &(BTreeMap<Key, (u64, u64)>, BTreeSet<Key>)) -> bool {
    let f = |m: &BTreeMap<Key, (u64, u64)>| -> BTreeMap<Key, (u64, u64)> { m.iter().filter(|(k, _)| !want.1.contains(*k)).map(|(k, v)| (k.clone(), *v)).collect() };
    f(got) == f(&want.0)
}

fn show(d: &BTreeMap<Key, (u64, u64)>) -> String {
    d.iter().map(|(k, (s, h))| format!("{}@{s}#{:04x}", esc(k), h & 0xffff)).collect::<Vec<_>>().join(" ")
}

pub fn faultrun(args: &Args) -> i32 {
    let seed = args.u("seed", 1);
    let case = args.u("case", 0);
    let dir = PathBuf::from(args.s("dir", "/dev/shm/lsmv-faultrun/tree"));
    let markers = PathBuf::from(args.s("markers", "/dev/shm/lsmv-faultrun/markers"));
    let result = args.s("result", "");
    // "reopening at any time afterwards": in this mode the tree is CLOSED right after the first failed call
    // (dropping every handle, which is when files marked as deleted really go) and reopened in place, no retry
    let close_after_failure = args.s("after-failure", "retry") == "close";
    hooks::install_panic_capture();
    hooks::install_version_queue();
    hooks::install_clock();
    let c = build_case(seed, case);
    let mf = std::fs::OpenOptions::new().create(true).write(true).truncate(true).open(&markers).expect("markers");
    let mut mf2 = mf.try_clone().expect("clone");
    let mut mark = move |s: String| {
        let _ = mf2.write_all(format!("{s}\n").as_bytes());
    };
    let mut res = J::obj();
    res.set("seed", J::i(seed));
    res.set("case", J::i(case));
    res.set("ops", J::i(c.history.len()));
    res.set("kv", J::Bool(c.cfg.kv.is_some()));
    let mut failed_calls: Vec<J> = vec![];
    let mut violation: Option<Violation> = None;

    let finish = |res: &mut J, failed_calls: Vec<J>, violation: Option<Violation>| {
        res.set("failed_calls", J::Arr(failed_calls));
        match violation {
            Some(v) => {
                let mut o = J::obj();
                o.set("tags", J::Arr(v.tags.iter().map(|t| J::s(t.clone())).collect()));
                o.set("sig", J::s(v.sig));
                o.set("msg", J::s(v.msg));
                res.set("violation", o);
            }
            None => {
                res.set("violation", J::Null);
            }
        }
        if result.is_empty() {
            println!("{}", res.render());
        } else {
            let _ = std::fs::write(&result, res.render());
        }
    };

    let known_set = crate::load_known(args);
    let opts = InstOpts {
            detached: false,
        filter_seed: None,
        shared: None,
        obs_seed: seed ^ case,
        scan_cases: 1,
        fifo: false,
        fifo_desc: false,
        known: crate::load_known(args),
        focus: Some("C16".into()),
        filter_large_len: 300,
    };
    mark("M B -1 create".into());
    // creation is not one of the operations of the property: a failed create is simply reported
    let mut inst = match Instance::create(&dir, c.cfg.clone(), c.uni.clone(), opts) {
        Ok(i) => i,
        Err(v) => {
            res.set("create_failed", J::s(v.msg));
            finish(&mut res, failed_calls, None);
            return 0;
        }
    };
    inst.call_markers = Some(mf);
    // every history of this engine lies inside C16's quantifier ("x histories"): a wrong read anywhere in it counts
    inst.extra_tags = vec!["C16"];
    mark("M E -1".into());
    let keys = inst.all_keys();
    let copy = dir.with_extension("copy");

    'ops: for (i, op) in c.history.iter().enumerate() {
        mark(format!("M B {i} {}", op.name()));
        let before_model = inst.model.clone();
        let uid_before = inst.uid;
        let r = inst.exec(i, op);
        match r {
            Ok(()) => {}
            Err(v) if v.sig.starts_with("error:") => {
                // a call into the crate returned Err: the failed call must have changed nothing
                let mut fc = J::obj();
                fc.set("op", J::i(i));
                fc.set("name", J::s(op.name()));
                fc.set("error", J::s(v.msg.clone()));
                failed_calls.push(fc);
                let tag = |what: &str, msg: String| Violation::new(&["C16"], format!("fault:{what}:{}", op.name()), format!("after op #{i} ({}) returned Err [{}]: {msg}", op.name(), v.msg));

                // a failed reopen leaves no tree: the retry below is the open itself
                if inst.tree.is_some() {
                    // the model may only have advanced by what really happened before the failing step
                    // (ingestion: memtables already flushed) — logical content is unchanged either way
                    if matches!(op, Op::Ingest { .. }) && inst.tree().sealed_memtable_count() == 0 && inst.tree().active_memtable().is_empty() {
                        inst.model.rotate();
                        inst.model.flushed();
                    }
                    if let Err(v2) = inst.battery(true, &[]) {
                        violation = Some(tag("reads-changed", v2.msg));
                        break 'ops;
                    }
                    if inst.is_compacting() {
                        violation = Some(tag("tables-left-hidden", "is_compacting() is still true after the failed call".into()));
                        break 'ops;
                    }
                    // a failed call must not leave a file of the (unchanged) current version marked for deletion
                    if let Err(mut v2) = inst.live_files_not_marked() {
                        v2.tags.push("C16".into());
                        v2.sig = format!("fault:{}:{}", v2.sig, op.name());
                        v2.msg = format!("after op #{i} ({}) returned Err [{}]: {}", op.name(), v.msg, v2.msg);
                        violation = Some(v2);
                        break 'ops;
                    }
                    copy_dir(&dir, &copy);
                }
                if close_after_failure && inst.tree.is_some() {
                    let want_before = durable(&before_model, &keys);
                    let want_mid = durable(&inst.model, &keys);
                    let want_after = {
                        // what the call would have made durable had it succeeded
                        let mut m = inst.model.clone();
                        match op {
                            // a flush without rotation only writes out what is already sealed (false alarm at
                            // seed 12 before this distinction: the observed state WAS the after-state)
                            Op::Flush { rotate: false, .. } => m.flushed(),
                            Op::Flush { .. } | Op::Ingest { .. } => {
                                m.rotate();
                                m.flushed();
                            }
                            _ => {}
                        }
                        durable(&m, &keys)
                    };
                    let _ = std::fs::remove_dir_all(&copy);
                    // close: every handle of ours goes, then the tree itself
                    inst.iters.clear();
                    inst.tree = None;
                    let _ = hooks::drain_installs();
                    match dump_copy(&c.cfg, &dir) {
                        Err(e) => {
                            // a file the durable version names went away with the last handle: "nothing live is ever deleted"
                            let mut v = tag("closed-tree-unopenable", format!("the tree was closed right after the failed call and reopened: {e}"));
                            v.tags.push("C20".into());
                            violation = Some(v);
                        }
                        Ok(got) => {
                            let ok = same(&got, &want_before) || same(&got, &want_mid) || same(&got, &want_after) || matches!(op, Op::Ingest { .. } | Op::Clear | Op::DropRange { .. });
                            if !ok {
                                violation = Some(tag(
                                    "closed-tree-wrong-state",
                                    format!("closing right after the failed call and reopening yields [{}], neither before [{}] nor after [{}]", show(&got), show(&want_before.0), show(&want_after.0)),
                                ));
                            }
                        }
                    }
                    res.set("closed_after_failure", J::Bool(true));
                    break 'ops;
                }
                // whatever the failed call left on disk is an orphan until the next reopen
                if inst.tree.is_some() {
                    let hist = inst.tree().get_version_history_lock().verif_history();
                    let (nt, nb, _) = crate::audit::named_by(&hist);
                    drop(hist);
                    let (dt, db, _, _) = crate::audit::list_dir(&dir);
                    for t in dt.difference(&nt) {
                        inst.orphans.0.insert(*t);
                    }
                    for b in db.difference(&nb) {
                        inst.orphans.1.insert(*b);
                    }
                }
                // retry: the fault was one-shot
                mark(format!("M T {i} retry"));
                let model_at_failure = inst.model.clone();
                // the retry writes the same values as the failed attempt did
                inst.uid = uid_before;
                let r2 = if inst.tree.is_none() { inst.exec(i, &Op::Reopen) } else { inst.exec(i, op) };
                if let Err(v2) = r2 {
                    violation = Some(tag("retry-failed", v2.msg));
                    break 'ops;
                }
                // the copy taken right after the failure must reopen to the before- or after-state
                if copy.is_dir() {
                    let want_before = durable(&before_model, &keys);
                    let want_mid = durable(&model_at_failure, &keys);
                    // a failed call may already have made its memtable flush durable on disk (the
                    // version pointer is replaced before the call can still fail): for ingestion,
                    // whose first documented step is that flush, this is a state of its own
                    let want_mid2 = {
                        let mut m = model_at_failure.clone();
                        m.rotate();
                        m.flushed();
                        durable(&m, &keys)
                    };
                    let is_ingest = matches!(op, Op::Ingest { .. });
                    let want_after = durable(&inst.model, &keys);
                    match dump_copy(&c.cfg, &copy) {
                        Err(e) => {
                            violation = Some(tag("copy-unopenable", format!("a copy of the directory taken right after the failed call: {e}")));
                            break 'ops;
                        }
                        Ok(got) => {
                            if !(same(&got, &want_before) || same(&got, &want_mid) || same(&got, &want_after) || (is_ingest && (same(&got, &want_mid2) || same_values(&got, &want_after)))) {
                                violation = Some(tag(
                                    "copy-wrong-state",
                                    format!("reopening right after the failed call yields [{}], neither before [{}] nor after [{}]", show(&got), show(&want_before.0), show(&want_after.0)),
                                ));
                                break 'ops;
                            }
                        }
                    }
                    let _ = std::fs::remove_dir_all(&copy);
                }
                // the retried call returned Ok: from now on a reopen must yield the state AFTER the call (a retry
                // that reports success without making the operation durable is the failure mode of an in-memory
                // version that ran ahead of the manifest)
                if inst.tree.is_some() {
                    copy_dir(&dir, &copy);
                    let want_after = durable(&inst.model, &keys);
                    match dump_copy(&c.cfg, &copy) {
                        Err(e) => {
                            violation = Some(tag("copy-after-retry-unopenable", format!("a copy of the directory taken after the successful retry: {e}")));
                            break 'ops;
                        }
                        Ok(got) => {
                            if !(same(&got, &want_after) || (matches!(op, Op::Ingest { .. }) && same_values(&got, &want_after))) {
                                violation = Some(tag(
                                    "retry-not-durable",
                                    format!("reopening after the successful retry yields [{}], expected the state after the call [{}]", show(&got), show(&want_after.0)),
                                ));
                                break 'ops;
                            }
                        }
                    }
                    let _ = std::fs::remove_dir_all(&copy);
                }
            }
            Err(v) if v.tags.iter().any(|t| known_set.contains(&(t.clone(), v.sig.clone()))) => {
                // a listed known finding of another property (e.g. the relocation panic on ingested blob frames): not
                // this property's matter, and the history cannot be continued
                inst.known_hits.entry(format!("{}|{}", v.tags.first().cloned().unwrap_or_default(), v.sig)).or_insert((0, v.msg.clone())).0 += 1;
                break 'ops;
            }
            Err(v) => {
                // anything else (wrong read, panic, audit finding of C16 itself)
                let mut v = v;
                if !v.tags.contains(&"C16".to_string()) {
                    v.tags.push("C16".into());
                }
                v.sig = format!("fault:{}", v.sig);
                violation = Some(v);
                break 'ops;
            }
        }
        mark(format!("M E {i}"));
    }
    if violation.is_none() && !(close_after_failure && inst.tree.is_none()) {
        mark("M B 9999 final-reopen".into());
        if let Err(v) = inst.exec(9999, &Op::Reopen) {
            if !v.sig.starts_with("error:") {
                let mut v = v;
                v.tags.push("C16".into());
                v.sig = format!("fault:final-reopen:{}", v.sig);
                violation = Some(v);
            } else if let Err(v2) = inst.exec(9999, &Op::Reopen) {
                let mut v2 = v2;
                v2.tags.push("C16".into());
                v2.sig = format!("fault:final-reopen-retry:{}", v2.sig);
                violation = Some(v2);
            }
        }
    }
    res.set("other_hits", J::Arr(inst.other_hits.iter().map(|(k, (n, m))| {
        let mut o = J::obj();
        o.set("key", J::s(k.clone()));
        o.set("count", J::i(*n));
        o.set("example", J::s(m.clone()));
        o
    }).collect()));
    res.set("known_hits", J::Arr(inst.known_hits.iter().map(|(k, (n, m))| {
        let mut o = J::obj();
        o.set("key", J::s(k.clone()));
        o.set("count", J::i(*n));
        o.set("example", J::s(m.clone()));
        o
    }).collect()));
    let mut sample = J::obj();
    sample.set("config", c.cfg.describe());
    sample.set("ops", J::Arr(c.history.iter().enumerate().map(|(i, op)| J::s(format!("#{i} {}", op.render(&c.uni)))).collect()));
    res.set("sample", sample);
    res.set("hash", J::s(format!("{:016x}", fnv64(format!("{}{:?}", c.cfg.describe().render(), c.history).as_bytes()))));
    drop(inst);
    let _ = std::fs::remove_dir_all(&copy);
    finish(&mut res, failed_calls, violation);
    0
}
