//! Engine `corrupt` (C10): single-site byte mutations and truncations of every persisted file of
//! small trees; after each mutation the tree is opened afresh (new cache, new descriptor table)
//! and a read battery runs. An answer that is `Ok` but differs from the pristine tree's answer is
//! a violation; errors and fail-stops (panic, abort) are "reported", counted separately.
//!
//! The mutations run in a worker subprocess (an allocation failure or abort must not take the
//! shard down); the parent restarts the worker after the mutation that killed it.

use crate::cfg::TreeCfg;
use crate::hooks;
use crate::inst::{bump, Counters, InstOpts, Instance};
use crate::json::{esc, J};
use crate::keys::Universe;
use crate::ops::{self, Op};
use crate::rng::{fnv64, Rng};
use crate::Args;
use lsm_tree::{AbstractTree, AnyTree, Guard, SequenceNumberCounter};
use std::collections::{BTreeMap, BTreeSet};
use std::panic::{catch_unwind, AssertUnwindSafe};
use std::path::{Path, PathBuf};
use std::sync::Arc;
use std::time::{Duration, Instant};

type Key = Vec<u8>;

#[derive(Clone, Debug, PartialEq, Eq)]
enum Ans {
    Val(Option<Vec<u8>>),
    /// scan: items yielded, and whether it ended with an error
    Seq(Vec<(Key, Vec<u8>)>, bool),
    Num(usize),
    Err,
}

fn answers(tree: &AnyTree, keys: &[Key], mid: u64) -> Vec<(String, Ans)> {
    let mut out = vec![];
    for k in keys {
        out.push((format!("get({:?})", esc(k)), match tree.get(k, u64::MAX) {
            Ok(v) => Ans::Val(v.map(|v| v.to_vec())),
            Err(_) => Ans::Err,
        }));
    }
    for k in keys.iter().step_by(3) {
        out.push((format!("get({:?}@{mid})", esc(k)), match tree.get(k, mid) {
            Ok(v) => Ans::Val(v.map(|v| v.to_vec())),
            Err(_) => Ans::Err,
        }));
        out.push((format!("size_of({:?})", esc(k)), match tree.size_of(k, u64::MAX) {
            Ok(v) => Ans::Val(v.map(|v| v.to_le_bytes().to_vec())),
            Err(_) => Ans::Err,
        }));
    }
    let scan = |it: Box<dyn Iterator<Item = lsm_tree::IterGuardImpl>>| -> Ans {
        let mut v = vec![];
        for g in it {
            match g.into_inner() {
                Ok((k, val)) => v.push((k.to_vec(), val.to_vec())),
                Err(_) => return Ans::Seq(v, true),
            }
        }
        Ans::Seq(v, false)
    };
    out.push(("scan_forward".into(), scan(Box::new(tree.iter(u64::MAX, None)))));
    out.push(("scan_reverse".into(), scan(Box::new(tree.iter(u64::MAX, None).rev()))));
    out.push(("len".into(), match tree.len(u64::MAX, None) {
        Ok(n) => Ans::Num(n),
        Err(_) => Ans::Err,
    }));
    out
}

/// Outcome classes of one mutation.
#[derive(Clone, Copy, PartialEq, Eq, Debug)]
enum Outcome {
    Same,
    ErrorOnOpen,
    ErrorOnRead,
    FailStop,
    Wrong,
}

fn compare(pristine: &[(String, Ans)], got: &[(String, Ans)]) -> (Outcome, String) {
    let mut any_err = false;
    for ((label, p), (_, g)) in pristine.iter().zip(got.iter()) {
        match (p, g) {
            (_, Ans::Err) => any_err = true,
            (Ans::Seq(pv, _), Ans::Seq(gv, true)) => {
                any_err = true;
                // whatever was yielded before the error must be right (a prefix of the true sequence)
                if gv.len() > pv.len() || gv[..] != pv[..gv.len()] {
                    return (Outcome::Wrong, format!("{label}: items yielded before the error differ from the pristine sequence"));
                }
            }
            (a, b) if a == b => {}
            (a, b) => {
                let show = |x: &Ans| match x {
                    Ans::Val(v) => format!("{:?}", v.as_ref().map(|v| esc(&v[..v.len().min(24)]))),
                    Ans::Seq(v, e) => format!("{} items{}", v.len(), if *e { " then Err" } else { "" }),
                    Ans::Num(n) => format!("{n}"),
                    Ans::Err => "Err".into(),
                };
                return (Outcome::Wrong, format!("{label}: pristine answer {} but corrupted tree answered {} (Ok)", show(a), show(b)));
            }
        }
    }
    (if any_err { Outcome::ErrorOnRead } else { Outcome::Same }, String::new())
}

#[derive(Clone, Debug)]
struct Mutation {
    file: usize,
    offset: u64,
    /// 0 = flip one seeded bit, 1 = set 0x00, 2 = set 0xFF, 3 = truncate to `offset`
    kind: u8,
}

fn list_files(dir: &Path) -> Vec<PathBuf> {
    let mut v = vec![];
    for sub in ["", "tables", "blobs"] {
        if let Ok(rd) = std::fs::read_dir(dir.join(sub)) {
            for e in rd.flatten() {
                if e.path().is_file() {
                    v.push(e.path());
                }
            }
        }
    }
    v.sort();
    v
}

fn file_kind(dir: &Path, p: &Path) -> &'static str {
    let rel = p.strip_prefix(dir).unwrap_or(p).to_string_lossy().to_string();
    if rel.starts_with("tables/") {
        "table"
    } else if rel.starts_with("blobs/") {
        "blob"
    } else if rel == "current" {
        "current"
    } else {
        "version"
    }
}

/// Region name of a byte offset (sfa section name, or toc/trailer).
fn regions(path: &Path) -> Vec<(u64, u64, String)> {
    let mut v = vec![];
    if let Ok(r) = sfa::Reader::new(path) {
        for e in r.toc().iter() {
            v.push((e.pos(), e.pos() + e.len(), String::from_utf8_lossy(e.name()).to_string()));
        }
    }
    v
}

fn region_of(regs: &[(u64, u64, String)], off: u64) -> String {
    regs.iter().find(|(a, b, _)| off >= *a && off < *b).map_or("toc+trailer".to_string(), |r| r.2.clone())
}

fn enumerate_mutations(files: &[PathBuf], stride_cap: u64, rng_seed: u64) -> Vec<Mutation> {
    let mut out = vec![];
    for (fi, f) in files.iter().enumerate() {
        let len = std::fs::metadata(f).map(|m| m.len()).unwrap_or(0);
        // exhaustive up to stride_cap bytes, stride sampling above
        let stride = if len <= stride_cap { 1 } else { len.div_ceil(stride_cap) };
        let mut off = 0;
        while off < len {
            for kind in 0..3u8 {
                out.push(Mutation { file: fi, offset: off, kind });
            }
            out.push(Mutation { file: fi, offset: off, kind: 3 });
            off += stride;
        }
    }
    // seeded shuffle (deterministic per tree): whatever prefix of the enumeration a time budget allows is a
    // uniform sample over all files, regions and mutation kinds instead of "the first files only"; a run that
    // finishes the list is exhaustive exactly as before
    let mut rng = Rng::derive(rng_seed, 0xC0_44_07);
    for i in (1..out.len()).rev() {
        let j = rng.usize(i + 1);
        out.swap(i, j);
    }
    out
}

fn copy_tree(src: &Path, dst: &Path) {
    let _ = std::fs::remove_dir_all(dst);
    std::fs::create_dir_all(dst.join("tables")).expect("mkdir");
    for f in list_files(src) {
        let rel = f.strip_prefix(src).expect("prefix");
        if let Some(p) = dst.join(rel).parent() {
            let _ = std::fs::create_dir_all(p);
        }
        std::fs::copy(&f, dst.join(rel)).expect("copy");
    }
    if src.join("blobs").is_dir() {
        let _ = std::fs::create_dir_all(dst.join("blobs"));
    }
}

struct TreeSpec {
    cfg: TreeCfg,
    keys: Vec<Key>,
    mid: u64,
    sample: J,
    hash: u64,
}

/// Builds a small tree with a short seeded history; everything is flushed at the end.
fn build_tree(seed: u64, case: u64, dir: &Path) -> Result<TreeSpec, String> {
    let mut rng = Rng::derive(seed, case ^ 0xC0_22);
    // every other tree is tiny (a handful of keys, short history): its files are covered byte by byte within the
    // quick budget; the larger ones have more structure (levels, partitions, several blob files) and are sampled
    let tiny = (case / 1_000_000 + case) % 2 == 1;
    let uni = Arc::new(if tiny { Universe::generate(&mut rng, 7, 0, 2) } else { Universe::generate(&mut rng, 18, 0, 6) });
    let blob = rng.chance(2, 5) || (tiny && rng.chance(1, 3));
    let mut cfg = TreeCfg::random(&mut rng, Some(blob));
    // keep files small so that every byte can be covered
    cfg.block_size = vec![*rng.pick(&[64, 256, 1024])];
    if let Some(kv) = cfg.kv.as_mut() {
        kv.file_target = *rng.pick(&[128, 4096, 64 << 20]);
    }
    let profile = ops::profile("layout").expect("profile");
    let mut p = profile.clone();
    p.min_ops = if tiny { 8 } else { 25 };
    p.max_ops = if tiny { 22 } else { 70 };
    p.weights[ops::Kind::Reopen as usize] = 0;
    p.weights[ops::Kind::SnapOpen as usize] = 0;
    p.weights[ops::Kind::DropRange as usize] = 1;
    let mut history = ops::gen_history(&mut rng, &p, &uni, &cfg.thresholds());
    history.push(Op::Flush { rotate: true, wm: 0 });
    let opts = InstOpts {
            detached: false,
        filter_seed: None,
        shared: None,
        obs_seed: 1,
        scan_cases: 0,
        fifo: false,
        fifo_desc: false,
        known: Arc::new(BTreeSet::new()),
        focus: None,
        filter_large_len: 300,
    };
    let mut inst = Instance::create(dir, cfg.clone(), uni.clone(), opts).map_err(|v| v.msg)?;
    for (i, op) in history.iter().enumerate() {
        // values only moderately large: keep the files enumerable
        let op = match op {
            Op::Put { k, vlen } => Op::Put { k: *k, vlen: (*vlen).min(if tiny { 90 } else { 300 }) },
            other => other.clone(),
        };
        if let Err(v) = inst.exec(i, &op) {
            // a violation while *building* belongs to another property's check; skip this tree
            return Err(format!("skipped: {}", v.sig));
        }
    }
    let mid = inst.visible.get() / 2;
    let keys = inst.all_keys();
    let mut sample = J::obj();
    sample.set("config", cfg.describe());
    sample.set("ops", J::i(history.len()));
    sample.set("layout", inst.describe_layout());
    let hash = fnv64(format!("{}{:?}", cfg.describe().render(), history).as_bytes());
    drop(inst);
    let _ = hooks::drain_installs();
    Ok(TreeSpec { cfg, keys, mid, sample, hash })
}

fn open_and_answer(cfg: &TreeCfg, dir: &Path, keys: &[Key], mid: u64) -> Result<Vec<(String, Ans)>, ()> {
    let c = cfg.build(dir, SequenceNumberCounter::default(), SequenceNumberCounter::default(), None);
    match c.open() {
        Ok(tree) => Ok(answers(&tree, keys, mid)),
        Err(_) => Err(()),
    }
}

/// Like `open_and_answer`, and then the "laundering" path: a major compaction with watermark 0 (it retains every
/// version, so a correct tree answers exactly as before; an `Err` from it is fine and leaves the tree as it was)
/// followed by the same battery on the open tree and once more on a fresh open. A compaction reads the tables through
/// the sequential scanner, not through the point/range readers; if it copies an altered byte into a freshly
/// checksummed table, every *subsequent* lookup and scan serves it as data (the property's "every subsequent open,
/// lookup or scan"). Returns (before, after-on-the-open-tree, after-reopen).
#[allow(clippy::type_complexity)]
fn open_answer_compact(cfg: &TreeCfg, dir: &Path, keys: &[Key], mid: u64) -> Result<(Vec<(String, Ans)>, Vec<(String, Ans)>, Option<Vec<(String, Ans)>>), ()> {
    let c = cfg.build(dir, SequenceNumberCounter::default(), SequenceNumberCounter::default(), None);
    let tree = c.open().map_err(|_| ())?;
    let a1 = answers(&tree, keys, mid);
    let _ = tree.major_compact(u64::MAX, 0);
    let a2 = answers(&tree, keys, mid);
    drop(tree);
    let a3 = open_and_answer(cfg, dir, keys, mid).ok();
    Ok((a1, a2, a3))
}

/// Folds the three batteries of `open_answer_compact` into one outcome: a wrong answer anywhere wins.
fn compare_compacted(reference: &[(String, Ans)], r: &(Vec<(String, Ans)>, Vec<(String, Ans)>, Option<Vec<(String, Ans)>>)) -> (Outcome, String) {
    let (o1, d1) = compare(reference, &r.0);
    if o1 == Outcome::Wrong {
        return (o1, d1);
    }
    let (o2, d2) = compare(reference, &r.1);
    if o2 == Outcome::Wrong {
        return (o2, format!("after-major-compaction: {d2}"));
    }
    if let Some(a3) = &r.2 {
        let (o3, d3) = compare(reference, a3);
        if o3 == Outcome::Wrong {
            return (o3, format!("after-major-compaction-and-reopen: {d3}"));
        }
    }
    (o1, d1)
}

fn apply(m: &Mutation, path: &Path, orig: &[u8], case_seed: u64) {
    match m.kind {
        3 => {
            let f = std::fs::OpenOptions::new().write(true).open(path).expect("open for truncate");
            f.set_len(m.offset).expect("truncate");
        }
        k => {
            let mut b = orig.to_vec();
            let i = m.offset as usize;
            b[i] = match k {
                0 => b[i] ^ (1u8 << (fnv64(&[case_seed.to_le_bytes(), m.offset.to_le_bytes()].concat()) % 8)),
                1 => 0x00,
                _ => 0xFF,
            };
            if b[i] == orig[i] {
                b[i] = !orig[i];
            }
            std::fs::write(path, &b).expect("write mutated");
        }
    }
}

/// Worker: runs mutations `from..` on the working copy, appending results to the progress file.
pub fn worker(args: &Args) -> i32 {
    let spec_path = args.s("spec", "");
    let from = args.u("from", 0) as usize;
    let limit = Duration::from_secs(args.u("time-limit", 600));
    let spec = J::parse(&std::fs::read_to_string(&spec_path).expect("spec")).expect("spec json");
    let pristine = PathBuf::from(spec.get("pristine").and_then(J::as_str).expect("pristine"));
    let work = PathBuf::from(spec.get("work").and_then(J::as_str).expect("work"));
    let progress = PathBuf::from(spec.get("progress").and_then(J::as_str).expect("progress"));
    let seed = spec.get("seed").and_then(J::as_i64).unwrap_or(1) as u64;
    let case = spec.get("case").and_then(J::as_i64).unwrap_or(0) as u64;
    let stride_cap = spec.get("stride_cap").and_then(J::as_i64).unwrap_or(8192) as u64;
    hooks::install_panic_capture();
    hooks::install_clock();

    // rebuild the spec deterministically (config, keys) without touching the pristine dir
    let tmp = work.with_extension("rebuild");
    let _ = std::fs::remove_dir_all(&tmp);
    let ts = match build_tree(seed, case, &tmp) {
        Ok(t) => t,
        Err(_) => return 3,
    };
    let _ = std::fs::remove_dir_all(&tmp);

    let files = list_files(&pristine);
    let muts = enumerate_mutations(&files, stride_cap, seed);
    let reference = match open_and_answer(&ts.cfg, &pristine_copy(&pristine, &work), &ts.keys, ts.mid) {
        Ok(a) => a,
        Err(()) => return 4,
    };
    let rel: Vec<PathBuf> = files.iter().map(|f| f.strip_prefix(&pristine).expect("prefix").to_path_buf()).collect();
    let origs: Vec<Vec<u8>> = files.iter().map(|f| std::fs::read(f).expect("read")).collect();
    let regs: Vec<Vec<(u64, u64, String)>> = files.iter().map(|f| regions(f)).collect();
    let names: BTreeSet<PathBuf> = rel.iter().cloned().collect();

    let start = Instant::now();
    let mut log = std::fs::OpenOptions::new().create(true).append(true).open(&progress).expect("progress");
    use std::io::Write;
    let mut i = from;
    while i < muts.len() && start.elapsed() < limit {
        let m = &muts[i];
        // announce before executing: if the process dies, the parent knows which mutation did it
        let _ = writeln!(log, "B {i}");
        let _ = log.flush();
        let path = work.join(&rel[m.file]);
        apply(m, &path, &origs[m.file], seed ^ case);
        let kind = file_kind(&pristine, &files[m.file]);
        // every third mutation of a table or blob file also takes the laundering path (compaction, then the battery again)
        let launder = (i as u64 + seed) % 3 == 0 && (kind == "table" || kind == "blob");
        let (outcome, detail) = if launder {
            match catch_unwind(AssertUnwindSafe(|| open_answer_compact(&ts.cfg, &work, &ts.keys, ts.mid))) {
                Err(_) => {
                    let _ = hooks::take_panic();
                    (Outcome::FailStop, String::new())
                }
                Ok(Err(())) => (Outcome::ErrorOnOpen, String::new()),
                Ok(Ok(r)) => compare_compacted(&reference, &r),
            }
        } else {
            match catch_unwind(AssertUnwindSafe(|| open_and_answer(&ts.cfg, &work, &ts.keys, ts.mid))) {
                Err(_) => {
                    let _ = hooks::take_panic();
                    (Outcome::FailStop, String::new())
                }
                Ok(Err(())) => (Outcome::ErrorOnOpen, String::new()),
                Ok(Ok(a)) => compare(&reference, &a),
            }
        };
        if launder {
            let _ = writeln!(log, "L {i}");
        }
        let region = if kind == "current" { "current".to_string() } else { region_of(&regs[m.file], m.offset) };
        let o = match outcome {
            Outcome::Same => "same",
            Outcome::ErrorOnOpen => "open_err",
            Outcome::ErrorOnRead => "read_err",
            Outcome::FailStop => "failstop",
            Outcome::Wrong => "WRONG",
        };
        let _ = writeln!(
            log,
            "R {i} {o} {kind} {region} {} {} {} {}",
            m.kind,
            m.offset,
            rel[m.file].display(),
            detail.replace('\n', " ")
        );
        // restore: the mutated file, and anything recovery deleted as "orphan"
        std::fs::write(&path, &origs[m.file]).expect("restore");
        let present: BTreeSet<PathBuf> = list_files(&work).iter().map(|f| f.strip_prefix(&work).expect("prefix").to_path_buf()).collect();
        if present != names || launder {
            copy_tree(&pristine, &work);
        }
        i += 1;
    }
    let _ = writeln!(log, "E {i} {}", muts.len());
    0
}

fn pristine_copy(pristine: &Path, work: &Path) -> PathBuf {
    copy_tree(pristine, work);
    work.to_path_buf()
}

pub fn cmd(args: &Args) -> i32 {
    let seed = args.u("seed", 1);
    let shard = args.u("shard", 0);
    let max_cases = args.u("cases", 3);
    let limit = Duration::from_secs(args.u("time-limit", 40));
    let stride_cap = args.u("stride-cap", 8192);
    let out = args.s("out", "");
    let replay_dir = PathBuf::from(args.s("replay-dir", "/verif/replays"));
    let scratch = crate::scratch_dir(args);
    hooks::install_panic_capture();
    hooks::install_version_queue();
    hooks::install_clock();

    let start = Instant::now();
    let mut c = Counters::new();
    let mut violations: Vec<J> = vec![];
    let mut seen_sig: BTreeSet<String> = BTreeSet::new();
    let mut samples = vec![];
    let (mut hashes, mut nontrivial) = (BTreeSet::new(), BTreeSet::new());
    let mut cases = 0u64;
    let mut known_hits: BTreeMap<String, (u64, String)> = BTreeMap::new();
    let known = crate::load_known(args);
    let exe = std::env::current_exe().expect("exe");

    while cases < max_cases && start.elapsed() < limit {
        let case_no = shard * 1_000_000 + cases;
        cases += 1;
        let pristine = scratch.join(format!("pristine-{case_no}"));
        let work = scratch.join(format!("work-{case_no}"));
        let progress = scratch.join(format!("progress-{case_no}.log"));
        let _ = std::fs::remove_dir_all(&pristine);
        let _ = std::fs::remove_file(&progress);
        let ts = match build_tree(seed, case_no, &pristine) {
            Ok(t) => t,
            Err(e) => {
                bump(&mut c, "trees_skipped", 1);
                let _ = e;
                continue;
            }
        };
        hashes.insert(ts.hash);
        bump(&mut c, "trees", 1);
        let files = list_files(&pristine);
        let total = enumerate_mutations(&files, stride_cap, seed).len();
        bump(&mut c, "files", files.len() as u64);
        bump(&mut c, "file_bytes", files.iter().map(|f| std::fs::metadata(f).map(|m| m.len()).unwrap_or(0)).sum());

        let mut spec = J::obj();
        spec.set("pristine", J::s(pristine.to_string_lossy().to_string()));
        spec.set("work", J::s(work.to_string_lossy().to_string()));
        spec.set("progress", J::s(progress.to_string_lossy().to_string()));
        spec.set("seed", J::i(seed));
        spec.set("case", J::i(case_no));
        spec.set("stride_cap", J::i(stride_cap));
        let spec_path = scratch.join(format!("spec-{case_no}.json"));
        std::fs::write(&spec_path, spec.render()).expect("spec");

        let mut from = 0usize;
        let mut restarts = 0;
        loop {
            let left = limit.saturating_sub(start.elapsed());
            if left.as_secs() == 0 || from >= total {
                break;
            }
            // cap the address space: a corrupted length field must not eat the machine
            let status = std::process::Command::new("sh")
                .arg("-c")
                .arg(format!(
                    "ulimit -v 6000000; exec {} corrupt-worker --spec {} --from {} --time-limit {} 2>/dev/null",
                    exe.display(),
                    spec_path.display(),
                    from,
                    left.as_secs().max(1)
                ))
                .status();
            let text = std::fs::read_to_string(&progress).unwrap_or_default();
            let mut last_b = None;
            let mut last_r = None;
            let mut done = None;
            for l in text.lines() {
                let mut it = l.split(' ');
                match it.next() {
                    Some("B") => last_b = it.next().and_then(|x| x.parse::<usize>().ok()),
                    Some("R") => last_r = it.next().and_then(|x| x.parse::<usize>().ok()),
                    Some("E") => done = it.next().and_then(|x| x.parse::<usize>().ok()),
                    _ => {}
                }
            }
            let clean_exit = status.map(|s| s.success()).unwrap_or(false);
            if clean_exit && done.is_some() {
                from = done.unwrap_or(total);
                break;
            }
            // the worker died inside mutation last_b: a fail-stop (abort / allocation failure)
            match last_b {
                Some(b) if last_r != Some(b) => {
                    let mut f = std::fs::OpenOptions::new().append(true).open(&progress).expect("progress");
                    use std::io::Write;
                    let _ = writeln!(f, "R {b} failstop_abort ? ? 0 0 ? worker process died");
                    from = b + 1;
                }
                Some(b) => from = b + 1,
                None => {
                    bump(&mut c, "worker_start_failures", 1);
                    break;
                }
            }
            restarts += 1;
            if restarts > 200 {
                break;
            }
        }
        bump(&mut c, "worker_restarts", restarts);

        // fold the progress log
        let text = std::fs::read_to_string(&progress).unwrap_or_default();
        let mut executed = 0u64;
        for l in text.lines() {
            let parts: Vec<&str> = l.splitn(9, ' ').collect();
            if parts.first() == Some(&"L") {
                bump(&mut c, "mutations_followed_by_major_compaction", 1);
            }
            if parts.first() != Some(&"R") || parts.len() < 8 {
                continue;
            }
            executed += 1;
            let (outcome, kind, region, mkind, off, file) = (parts[2], parts[3], parts[4], parts[5], parts[6], parts[7]);
            let detail = parts.get(8).copied().unwrap_or("");
            bump(&mut c, &format!("outcome:{outcome}"), 1);
            bump(&mut c, &format!("covered:{kind}:{region}"), 1);
            bump(&mut c, &format!("mutation_kind:{}", match mkind { "0" => "bitflip", "1" => "zero", "2" => "ff", _ => "truncate" }), 1);
            if outcome == "WRONG" {
                let sig = format!("wrong-answer:{kind}:{region}");
                bump(&mut c, &format!("wrong:{kind}:{region}"), 1);
                let msg = format!("{file} offset {off} mutation {mkind} ({kind} file, region {region}): {detail}");
                if known.contains(&("C10".to_string(), sig.clone())) {
                    let e = known_hits.entry(format!("C10|{sig}")).or_insert((0, msg.clone()));
                    e.0 += 1;
                } else if seen_sig.insert(sig.clone()) && violations.len() < 6 {
                    let _ = std::fs::create_dir_all(&replay_dir);
                    let path = replay_dir.join(format!("corrupt-s{seed}-c{case_no}-{}.json", violations.len()));
                    let mut o = J::obj();
                    o.set("engine", J::s("corrupt"));
                    o.set("seed", J::i(seed));
                    o.set("case", J::i(case_no));
                    o.set("stride_cap", J::i(stride_cap));
                    o.set("mutation_index", J::i(parts[1].parse::<i64>().unwrap_or(0)));
                    o.set("tree", ts.sample.clone());
                    let mut vj = J::obj();
                    vj.set("tags", J::Arr(vec![J::s("C10")]));
                    vj.set("sig", J::s(sig));
                    vj.set("msg", J::s(msg));
                    o.set("violation", vj.clone());
                    let _ = std::fs::write(&path, o.render());
                    vj.set("replay", J::s(path.to_string_lossy().to_string()));
                    violations.push(vj);
                }
            }
        }
        bump(&mut c, "mutations_executed", executed);
        bump(&mut c, "mutations_enumerated", total as u64);
        if executed as usize >= total {
            bump(&mut c, "trees_fully_covered", 1);
        }
        if executed >= 100 {
            nontrivial.insert(ts.hash);
            if samples.len() < 2 {
                samples.push(ts.sample.clone());
            }
        }
        let _ = std::fs::remove_dir_all(&pristine);
        let _ = std::fs::remove_dir_all(&work);
        let _ = std::fs::remove_file(&progress);
        let _ = std::fs::remove_file(&spec_path);
    }

    let mut rep = J::obj();
    rep.set("engine", J::s("corrupt"));
    rep.set("seed", J::i(seed));
    rep.set("shard", J::i(shard));
    rep.set("cases", J::i(cases));
    rep.set("distinct", J::Arr(hashes.iter().map(|h| J::s(format!("{h:016x}"))).collect()));
    rep.set("nontrivial", J::Arr(nontrivial.iter().map(|h| J::s(format!("{h:016x}"))).collect()));
    rep.set("counters", J::Obj(c.iter().map(|(k, v)| (k.clone(), J::i(*v))).collect()));
    rep.set("violations", J::Arr(violations));
    rep.set("samples", J::Arr(samples));
    rep.set(
        "known_hits",
        J::Arr(
            known_hits
                .iter()
                .map(|(k, (n, m))| {
                    let mut o = J::obj();
                    o.set("key", J::s(k.clone()));
                    o.set("count", J::i(*n));
                    o.set("example", J::s(m.clone()));
                    o
                })
                .collect(),
        ),
    );
    rep.set("wall_s", J::Num(start.elapsed().as_secs_f64()));
    let text = rep.render();
    if out.is_empty() {
        println!("{text}");
    } else {
        std::fs::write(&out, text).expect("write report");
    }
    if args.s("scratch", "").is_empty() {
        let _ = std::fs::remove_dir_all(&scratch);
    }
    0
}

pub fn replay(j: &J, scratch: &Path) -> i32 {
    let seed = j.get("seed").and_then(J::as_i64).unwrap_or(1) as u64;
    let case = j.get("case").and_then(J::as_i64).unwrap_or(0) as u64;
    let stride_cap = j.get("stride_cap").and_then(J::as_i64).unwrap_or(8192) as u64;
    let idx = j.get("mutation_index").and_then(J::as_i64).unwrap_or(0) as usize;
    hooks::install_version_queue();
    let pristine = scratch.join("pristine");
    let work = scratch.join("work");
    let ts = match build_tree(seed, case, &pristine) {
        Ok(t) => t,
        Err(e) => {
            println!("REPLAY-ERROR cannot rebuild tree: {e}");
            return 2;
        }
    };
    let files = list_files(&pristine);
    let muts = enumerate_mutations(&files, stride_cap, seed);
    let Some(m) = muts.get(idx) else {
        println!("REPLAY-ERROR mutation index out of range");
        return 2;
    };
    copy_tree(&pristine, &work);
    let reference = open_and_answer(&ts.cfg, &work, &ts.keys, ts.mid).expect("pristine opens");
    copy_tree(&pristine, &work);
    let rel = files[m.file].strip_prefix(&pristine).expect("prefix");
    let orig = std::fs::read(&files[m.file]).expect("read");
    apply(m, &work.join(rel), &orig, seed ^ case);
    let r = catch_unwind(AssertUnwindSafe(|| open_answer_compact(&ts.cfg, &work, &ts.keys, ts.mid)));
    match r {
        Ok(Ok(a)) => {
            let (o, d) = compare_compacted(&reference, &a);
            if o == Outcome::Wrong {
                println!("REPLAY-VIOLATION tags=C10 sig=wrong-answer");
                println!("{} offset {} mutation {}: {d}", rel.display(), m.offset, m.kind);
                1
            } else {
                println!("REPLAY-OK outcome {o:?}");
                0
            }
        }
        _ => {
            println!("REPLAY-OK corrupted tree reported an error / stopped");
            0
        }
    }
}
