//! Engine `conc` (C06): one writer, readers, a flusher, several compactors and a major-compaction /
//! drop_range thread on one tree, with seeded delays injected at the crate's scheduling points
//! (`verif::sched`), plus directed scenarios that park one thread at a chosen scheduling point.
//!
//! Oracle: there is exactly one writer. A reader takes its snapshot from the value the WRITER has
//! published (not from the tree's visible counter, which version installs also advance), so the
//! expected result of every read is a function of the writer's log — an exact check.

use crate::audit::{self, AuditCache};
use crate::cfg::TreeCfg;
use crate::hooks;
use crate::inst::{bump, Counters, Violation};
use crate::json::{esc, J};
use crate::keys::{self, Class, Universe};
use crate::rng::{fnv64, Rng};
use crate::Args;
use lsm_tree::verif;
use lsm_tree::{AbstractTree, AnyTree, Guard, SequenceNumberCounter};
use std::cell::RefCell;
use std::collections::{BTreeMap, BTreeSet};
use std::panic::{catch_unwind, AssertUnwindSafe};
use std::path::{Path, PathBuf};
use std::sync::atomic::{AtomicBool, AtomicU64, Ordering};
use std::sync::{Arc, Condvar, Mutex, RwLock};
use std::time::{Duration, Instant};

type Key = Vec<u8>;

// ---------------------------------------------------------------------------------------------
// scheduling hook: seeded delays, site statistics, parking

static HOOK_SEED: AtomicU64 = AtomicU64::new(0);
static INGEST_VARIANT: AtomicBool = AtomicBool::new(false);
static WRITERS_VARIANT: AtomicBool = AtomicBool::new(false);
static THREAD_NO: AtomicU64 = AtomicU64::new(0);
static DELAY_PERMILLE: AtomicU64 = AtomicU64::new(0);
static SITE_HITS: Mutex<BTreeMap<&'static str, u64>> = Mutex::new(BTreeMap::new());
static MERGE_OVERLAPS: AtomicU64 = AtomicU64::new(0);
static FLUSH_OVERLAPS: AtomicU64 = AtomicU64::new(0);
static SIGNATURES: Mutex<BTreeSet<u64>> = Mutex::new(BTreeSet::new());
static CUR_SIG: Mutex<Vec<(u8, u8)>> = Mutex::new(Vec::new());

struct ParkState {
    want: Option<(&'static str, u64)>,
    parked: bool,
    release: bool,
}
static PARK: Mutex<ParkState> = Mutex::new(ParkState { want: None, parked: false, release: false });
static PARK_CV: Condvar = Condvar::new();

thread_local! {
    static TL_RNG: RefCell<Option<Rng>> = const { RefCell::new(None) };
    static TL_TAG: RefCell<u64> = const { RefCell::new(0) };
    static TL_ROLE: RefCell<u8> = const { RefCell::new(0) };
    static TL_INSTALLS_AT: RefCell<(u64, u64)> = const { RefCell::new((0, 0)) };
}

// ---------------------------------------------------------------------------------------------
// event ring: what happened, in one global order, kept per thread (uncontended locks) and merged only
// when a violation has to be explained

type EvBuf = Arc<Mutex<std::collections::VecDeque<(u64, String)>>>;
static EV_SEQ: AtomicU64 = AtomicU64::new(0);
static EV_GEN: AtomicU64 = AtomicU64::new(1);
static EV_BUFS: Mutex<Vec<EvBuf>> = Mutex::new(Vec::new());
thread_local! {
    static TL_EV: RefCell<(u64, Option<EvBuf>)> = const { RefCell::new((0, None)) };
}

fn ev(what: impl FnOnce() -> String) {
    let n = EV_SEQ.fetch_add(1, Ordering::SeqCst);
    let gen = EV_GEN.load(Ordering::Relaxed);
    TL_EV.with(|t| {
        let mut t = t.borrow_mut();
        if t.0 != gen || t.1.is_none() {
            let b: EvBuf = Arc::new(Mutex::new(std::collections::VecDeque::new()));
            EV_BUFS.lock().unwrap_or_else(|e| e.into_inner()).push(b.clone());
            *t = (gen, Some(b));
        }
        let role = TL_ROLE.with(|r| *r.borrow());
        let tag = TL_TAG.with(|r| *r.borrow());
        let mut b = t.1.as_ref().expect("buffer").lock().unwrap_or_else(|e| e.into_inner());
        if b.len() >= 4000 {
            b.pop_front();
        }
        b.push_back((n, format!("{}{tag} {}", ["?", "W", "R", "F", "C", "M", "X", "I"].get(role as usize).unwrap_or(&"?"), what())));
    });
}

fn ev_reset() {
    EV_GEN.fetch_add(1, Ordering::Relaxed);
    EV_BUFS.lock().unwrap_or_else(|e| e.into_inner()).clear();
}

/// The last `last` events (all threads, global order) that pass `keep`.
fn ev_dump(last: usize, keep: impl Fn(&str) -> bool) -> String {
    let mut all: Vec<(u64, String)> = vec![];
    for b in EV_BUFS.lock().unwrap_or_else(|e| e.into_inner()).iter() {
        all.extend(b.lock().unwrap_or_else(|e| e.into_inner()).iter().filter(|(_, w)| keep(w)).cloned());
    }
    all.sort();
    let from = all.len().saturating_sub(last);
    all[from..].iter().map(|(n, w)| format!("{n}:{w}")).collect::<Vec<_>>().join(" | ")
}

fn set_thread(role: u8, tag: u64) {
    TL_TAG.with(|t| *t.borrow_mut() = tag);
    TL_ROLE.with(|t| *t.borrow_mut() = role);
}

fn site_id(site: &str) -> u8 {
    (fnv64(site.as_bytes()) % 251) as u8
}

fn sched_hook(site: &'static str) {
    *SITE_HITS.lock().unwrap_or_else(|e| e.into_inner()).entry(site).or_insert(0) += 1;
    let role = TL_ROLE.with(|r| *r.borrow());
    ev(|| format!("@{site}"));
    {
        let mut s = CUR_SIG.lock().unwrap_or_else(|e| e.into_inner());
        if s.len() < 64 {
            s.push((site_id(site), role));
        }
    }
    // how many versions were installed by OTHER threads while this one was between two sites?
    let installs = hooks::INSTALL_COUNT.load(Ordering::Relaxed);
    match site {
        "merge:unlocked" => TL_INSTALLS_AT.with(|t| t.borrow_mut().0 = installs),
        "merge:before_finish" => {
            let at = TL_INSTALLS_AT.with(|t| t.borrow().0);
            if installs > at {
                MERGE_OVERLAPS.fetch_add(1, Ordering::Relaxed);
            }
        }
        "flush:after_snapshot" => TL_INSTALLS_AT.with(|t| t.borrow_mut().1 = installs),
        "register_tables" => {
            let at = TL_INSTALLS_AT.with(|t| t.borrow().1);
            if installs > at {
                FLUSH_OVERLAPS.fetch_add(1, Ordering::Relaxed);
            }
        }
        _ => {}
    }
    // parking (directed scenarios)
    {
        let tag = TL_TAG.with(|t| *t.borrow());
        let mut p = PARK.lock().unwrap_or_else(|e| e.into_inner());
        if p.want == Some((site, tag)) {
            p.parked = true;
            p.want = None;
            PARK_CV.notify_all();
            let deadline = Instant::now() + Duration::from_secs(20);
            while !p.release {
                let (g, _) = PARK_CV.wait_timeout(p, Duration::from_millis(50)).unwrap_or_else(|e| e.into_inner());
                p = g;
                if Instant::now() > deadline {
                    break;
                }
            }
            p.parked = false;
            p.release = false;
            return;
        }
    }
    // seeded delay
    let permille = DELAY_PERMILLE.load(Ordering::Relaxed);
    if permille == 0 {
        return;
    }
    let x = TL_RNG.with(|r| {
        let mut r = r.borrow_mut();
        if r.is_none() {
            *r = Some(Rng::derive(HOOK_SEED.load(Ordering::Relaxed), THREAD_NO.fetch_add(1, Ordering::Relaxed)));
        }
        r.as_mut().expect("rng").below(1000)
    });
    if x < permille / 3 {
        std::thread::sleep(Duration::from_micros(x % 300));
    } else if x < permille {
        std::thread::yield_now();
    }
}

fn park_at(site: &'static str, tag: u64) {
    let mut p = PARK.lock().unwrap_or_else(|e| e.into_inner());
    p.want = Some((site, tag));
    p.parked = false;
    p.release = false;
}

fn wait_parked(timeout: Duration) -> bool {
    let deadline = Instant::now() + timeout;
    let mut p = PARK.lock().unwrap_or_else(|e| e.into_inner());
    while !p.parked {
        let (g, _) = PARK_CV.wait_timeout(p, Duration::from_millis(20)).unwrap_or_else(|e| e.into_inner());
        p = g;
        if Instant::now() > deadline {
            p.want = None;
            return false;
        }
    }
    true
}

fn release() {
    let mut p = PARK.lock().unwrap_or_else(|e| e.into_inner());
    p.release = true;
    p.want = None;
    PARK_CV.notify_all();
}

fn on_install() {
    // close the interleaving signature collected since the previous install
    let sig: Vec<(u8, u8)> = std::mem::take(&mut *CUR_SIG.lock().unwrap_or_else(|e| e.into_inner()));
    let bytes: Vec<u8> = sig.iter().flat_map(|(a, b)| [*a, *b]).collect();
    SIGNATURES.lock().unwrap_or_else(|e| e.into_inner()).insert(fnv64(&bytes));
}

// ---------------------------------------------------------------------------------------------

const NONE: u64 = u64::MAX;

struct Shared {
    tree: AnyTree,
    seqno: SequenceNumberCounter,
    visible: SequenceNumberCounter,
    published: AtomicU64,
    /// writer's in-flight marker: NONE or the drawn seqno
    inflight: AtomicU64,
    /// makes "draw a seqno + set the marker" atomic with respect to "read visible + read the marker"
    draw: Mutex<()>,
    /// per key: (seqno, value or None) in write order
    log: RwLock<Vec<Vec<(u64, Option<Vec<u8>>)>>>,
    /// per key: number of log records whose write has fully returned (acknowledged)
    acked: Vec<std::sync::atomic::AtomicUsize>,
    live: Mutex<BTreeMap<u64, usize>>,
    stop: AtomicBool,
    violations: Mutex<Vec<Violation>>,
    counters: Mutex<Counters>,
    gkeys: Vec<Key>,
    dkeys: Vec<Key>,
    /// keys only the bulk-ingestion thread writes (every ingestion rewrites all of them)
    ikeys: Vec<Key>,
    ingest: AtomicBool,
}

impl Shared {
    fn expect(&self, ki: usize, snap: u64) -> Option<(u64, Vec<u8>)> {
        let log = self.log.read().unwrap_or_else(|e| e.into_inner());
        log[ki].iter().rev().find(|(s, _)| *s < snap).and_then(|(s, v)| v.clone().map(|v| (*s, v)))
    }

    fn log_len(&self, ki: usize) -> usize {
        self.log.read().unwrap_or_else(|e| e.into_inner())[ki].len()
    }

    fn acked_len(&self, ki: usize) -> usize {
        self.acked[ki].load(Ordering::Acquire)
    }

    /// Values a read of key `ki` at `snap` may return if it ran while the log of that key grew
    /// from `n0` to `n1` records: every ACKNOWLEDGED write below the snapshot must be visible; the
    /// one write that may have been in flight (the snapshot comes from the visible counter, which
    /// version installs advance too) may or may not be.
    fn candidates(&self, ki: usize, snap: u64, n0: usize, n1: usize) -> Vec<Option<Vec<u8>>> {
        let log = self.log.read().unwrap_or_else(|e| e.into_inner());
        let mut out = vec![];
        for n in n0..=n1.min(log[ki].len()) {
            let v = log[ki][..n].iter().rev().find(|(s, _)| *s < snap).and_then(|(_, v)| v.clone());
            if !out.contains(&v) {
                out.push(v);
            }
        }
        out
    }

    /// A snapshot as the documented protocol takes it: the visible counter, read after the writer
    /// published (registered under the monitor mutex, so that no watermark can overtake it).
    /// Returns `None` if a write with a seqno below the snapshot is still in flight: version
    /// installs advance the visible counter too, so it can run ahead of a write whose seqno is
    /// drawn but which is not applied yet — such a value is not "a snapshot the writer has
    /// already published", and nothing is claimed for it.
    fn open_snapshot(&self) -> Option<u64> {
        let mut l = self.live.lock().unwrap_or_else(|e| e.into_inner());
        let (s, f) = {
            // under the draw mutex the marker is either NONE (no seqno drawn that is not yet
            // acknowledged) or the drawn seqno — never "drawn but not marked yet"
            // ORDER MATTERS: the marker is read BEFORE the visible counter. While this thread holds the draw mutex no
            // seqno can be drawn, but a write that is already in flight can still complete (and clear the marker).
            // A write that is in flight at the instant `visible` is read was therefore already marked when the
            // marker was read just before; reading the marker after `visible` would miss a write that completed in
            // between - although it was in flight when the snapshot value was fixed (third correction, DESIGN 8.3).
            let _g = self.draw.lock().unwrap_or_else(|e| e.into_inner());
            let f = self.inflight.load(Ordering::SeqCst);
            let s = self.visible.get();
            (s, f)
        };
        if f != NONE && f < s {
            return None;
        }
        *l.entry(s).or_insert(0) += 1;
        ev(|| format!("snap {s} inflight={}", if f == NONE { "none".to_string() } else { f.to_string() }));
        Some(s)
    }

    fn close_snapshot(&self, s: u64) {
        let mut l = self.live.lock().unwrap_or_else(|e| e.into_inner());
        if let Some(c) = l.get_mut(&s) {
            *c -= 1;
            if *c == 0 {
                l.remove(&s);
            }
        }
    }

    /// A legal GC watermark: strictly below every live snapshot and the writer's published value.
    fn watermark(&self, rng: &mut Rng) -> u64 {
        let l = self.live.lock().unwrap_or_else(|e| e.into_inner());
        let m = l.keys().next().copied().unwrap_or(u64::MAX).min(self.visible.get());
        if m == 0 {
            return 0;
        }
        let t = match rng.below(4) {
            0 => 0,
            1 | 2 => m - 1,
            _ => rng.below(m),
        };
        ev(|| format!("watermark {t} (min live/visible {m})"));
        t
    }

    fn fail(&self, v: Violation) {
        self.violations.lock().unwrap_or_else(|e| e.into_inner()).push(v);
        self.stop.store(true, Ordering::SeqCst);
    }

    fn count(&self, k: &str, n: u64) {
        bump(&mut self.counters.lock().unwrap_or_else(|e| e.into_inner()), k, n);
    }
}

/// Extra context for a read mismatch: what other read paths say right now, and the version history.
fn diagnose(sh: &Shared, ki: usize, s: u64) -> String {
    let k = &sh.gkeys[ki];
    let point = sh.tree.get(k, s).map(|v| v.map(|v| esc(&v[..v.len().min(12)])));
    let internal = sh.tree.get_internal_entry(k, u64::MAX).map(|e| e.map(|e| (e.key.seqno, format!("{:?}", e.key.value_type))));
    let scan: Vec<String> = sh
        .tree
        .range::<Key, _>(k.clone()..=k.clone(), s, None)
        .map(|g| g.into_inner().map(|(_, v)| esc(&v[..v.len().min(12)])).unwrap_or_else(|e| format!("Err({e:?})")))
        .collect();
    let hist: Vec<String> = {
        let lock = sh.tree.get_version_history_lock();
        let chosen = verif::super_version_parts(&lock.get_version_for_snapshot(s));
        let mut v: Vec<String> = lock
            .verif_history()
            .iter()
            .map(|sv| {
                let (ver, seq, sealed, active) = verif::super_version_parts(sv);
                format!("(v{} seq={seq} active=m{active} sealed={sealed:?} tables={})", ver.id(), ver.table_count())
            })
            .collect();
        v.insert(0, format!("snapshot resolves to v{} seq={} active=m{} sealed={:?}", chosen.0.id(), chosen.1, chosen.3, chosen.2));
        // where the key's entries live: newest entry of the key in every memtable the retained history still holds
        let mut seen = BTreeSet::new();
        let mut mts: Vec<String> = vec![];
        for sv in lock.verif_history().iter() {
            for mt in verif::super_version_memtables(sv) {
                if seen.insert(mt.id) {
                    let e = mt.get(k, u64::MAX).map(|e| (e.key.seqno, format!("{:?}", e.key.value_type)));
                    let below = mt.get(k, s).map(|e| e.key.seqno);
                    mts.push(format!("m{}: newest={e:?} newest-below-S={below:?}", mt.id));
                }
            }
        }
        v.insert(1, format!("memtables: {mts:?}"));
        v
    };
    let log: Vec<String> = sh.log.read().unwrap_or_else(|e| e.into_inner())[ki].iter().rev().take(4).map(|(q, v)| format!("{q}:{}", v.as_ref().map_or("DEL".to_string(), |v| esc(&v[..v.len().min(8)])))).collect();
    // the trail: installs, scheduling points, the writer's draw/apply/ack, watermarks, and this snapshot's opening
    let me = format!("snap {s} ");
    let trail = ev_dump(260, |w| !w.contains(" snap ") || w.contains(&me));
    format!(
        "[diagnosis now: get@S={point:?}; newest internal entry={internal:?}; range(k..=k)@S={scan:?}; visible={} published={} inflight={}; last log records of the key (newest first)={log:?}; history={hist:?}; EVENTS (global order; W writer, R reader, F flusher, C compactor, M major/drop_range, X rotator, I ingester)={trail}]",
        sh.visible.get(),
        sh.published.load(Ordering::Acquire),
        sh.inflight.load(Ordering::SeqCst)
    )
}

fn viol(sig: &str, msg: String) -> Violation {
    Violation::new(&["C06"], sig, msg)
}

fn guarded<F: FnOnce() -> Result<(), Violation>>(sh: &Shared, role: &str, f: F) {
    match catch_unwind(AssertUnwindSafe(f)) {
        Ok(Ok(())) => {}
        Ok(Err(v)) => sh.fail(v),
        Err(_) => {
            let p = hooks::take_panic().unwrap_or_default();
            if p.contains("vptr was not matched with blob") && sh.ingest.load(Ordering::Relaxed) {
                // the known relocation defect (ingested blob frames), not a concurrency matter
                sh.fail(Violation::new(&["C08", "C14"], "panic:vptr-not-matched:tree-holds-ingested-blob-frames", format!("{role} thread panicked: {p}")));
            } else {
                sh.fail(viol(&format!("panic:{role}:{}", p.rsplit(" @ ").next().unwrap_or("")), format!("{role} thread panicked: {p}")));
            }
        }
    }
}

fn writer(sh: &Shared, seed: u64, n_ops: usize) -> Result<(), Violation> {
    set_thread(1, 1);
    let mut rng = Rng::derive(seed, 101);
    let mut uid = 0u64;
    for _ in 0..n_ops {
        if sh.stop.load(Ordering::Relaxed) {
            break;
        }
        let s = {
            let _g = sh.draw.lock().unwrap_or_else(|e| e.into_inner());
            let s = sh.seqno.next();
            sh.inflight.store(s, Ordering::SeqCst);
            s
        };
        ev(|| format!("draw {s}"));
        let n = if rng.chance(1, 6) { rng.range(2, 4) as usize } else { 1 };
        // 1. log the intent (a reader may already observe the write from here on)
        let mut recs: Vec<(usize, Option<Vec<u8>>)> = vec![];
        let mut used = BTreeSet::new();
        for _ in 0..n {
            let hot = if rng.chance(2, 3) { 6 } else { usize::MAX };
            let ki = rng.usize(sh.gkeys.len().min(hot));
            if !used.insert(ki) {
                continue;
            }
            if rng.chance(1, 4) {
                recs.push((ki, None));
            } else {
                uid += 1;
                recs.push((ki, Some(keys::value(uid, *rng.pick(&[8, 12, 40, 90, 300])))));
            }
        }
        {
            let mut log = sh.log.write().unwrap_or_else(|e| e.into_inner());
            for (ki, v) in &recs {
                log[*ki].push((s, v.clone()));
            }
        }
        // 2. perform it
        for (ki, v) in &recs {
            match v {
                None => {
                    let _ = sh.tree.remove(sh.gkeys[*ki].clone(), s);
                }
                Some(v) => {
                    let _ = sh.tree.insert(sh.gkeys[*ki].clone(), v.clone(), s);
                }
            }
        }
        // 3. publish and acknowledge
        ev(|| format!("applied {s} keys={:?}", recs.iter().map(|(ki, _)| *ki).collect::<Vec<_>>()));
        sh.visible.fetch_max(s + 1);
        for (ki, _) in &recs {
            sh.acked[*ki].fetch_add(1, Ordering::AcqRel);
        }
        sh.published.store(s + 1, Ordering::Release);
        sh.inflight.store(NONE, Ordering::SeqCst);
        ev(|| format!("acked {s}"));
        sh.count("writes", 1);
        if rng.chance(1, 8) {
            std::thread::yield_now();
        }
    }
    Ok(())
}

fn reader(sh: &Shared, seed: u64, id: u64) -> Result<(), Violation> {
    set_thread(2, 10 + id);
    let mut rng = Rng::derive(seed, 200 + id);
    while !sh.stop.load(Ordering::Relaxed) {
        let Some(s) = sh.open_snapshot() else {
            sh.count("snapshots_skipped_inflight_write_below", 1);
            std::thread::yield_now();
            continue;
        };
        sh.count("snapshots_opened", 1);
        if s == 0 {
            sh.close_snapshot(s);
            std::thread::yield_now();
            continue;
        }
        // C18 under concurrency: a value that was acknowledged before the call and is still the
        // newest record of its key after the call was stored during the whole call, so the
        // reported high-water mark cannot lie below its seqno. (An acknowledged write as such is no
        // lower bound: a tombstone, and what it shadows, may be legitimately evicted at the last level.)
        if rng.chance(1, 3) {
            let before: Vec<usize> = (0..sh.gkeys.len()).map(|ki| sh.acked_len(ki)).collect();
            let h = sh.tree.get_highest_seqno();
            let bound = {
                let log = sh.log.read().unwrap_or_else(|e| e.into_inner());
                (0..sh.gkeys.len())
                    .filter(|&ki| before[ki] > 0 && log[ki].len() == before[ki])
                    .filter_map(|ki| log[ki].last().and_then(|(q, v)| v.as_ref().map(|_| *q)))
                    .max()
            };
            sh.count("highest_seqno_checks", 1);
            if let Some(b) = bound {
                if h.is_none_or(|h| h < b) {
                    return Err(Violation::new(
                        &["C18"],
                        "highest-seqno-below-stored-value",
                        format!("get_highest_seqno() = {h:?} although the value written with seqno {b} was acknowledged before the call and is still the newest write of its key"),
                    ));
                }
            }
        }
        let hold = rng.range(1, 12);
        let iview = if sh.ingest.load(Ordering::Relaxed) { Some(ingest_view(sh, s)?) } else { None };
        for _ in 0..hold {
            if rng.chance(1, 5) {
                // scan (either direction): per key, the value must be one the writer's log allows at s
                let n0: Vec<usize> = (0..sh.gkeys.len()).map(|ki| sh.acked_len(ki)).collect();
                let rev = rng.chance(1, 2);
                let it = sh.tree.iter(s, None);
                let items: Vec<lsm_tree::IterGuardImpl> = if rev { it.rev().collect() } else { it.collect() };
                let mut got: Vec<(Key, Vec<u8>)> = vec![];
                for g in items {
                    match g.into_inner() {
                        Ok((k, v)) => {
                            if !k.starts_with(b"d") && !k.starts_with(b"~i") {
                                got.push((k.to_vec(), v.to_vec()));
                            }
                        }
                        Err(e) => return Err(viol("read-error", format!("scan at published snapshot {s} returned Err: {e:?}"))),
                    }
                }
                if rev {
                    got.reverse();
                }
                sh.count("scan_comparisons", 1);
                if got.windows(2).any(|w| w[0].0 >= w[1].0) {
                    return Err(viol("scan-order", format!("scan at published snapshot {s} is not strictly ordered")));
                }
                let got_map: BTreeMap<&Key, &Vec<u8>> = got.iter().map(|(k, v)| (k, v)).collect();
                for (ki, k) in sh.gkeys.iter().enumerate() {
                    let n1 = sh.log_len(ki);
                    let cands = sh.candidates(ki, s, n0[ki], n1);
                    let g = got_map.get(k).map(|v| (*v).clone());
                    if !cands.contains(&g) {
                        return Err(viol(
                            "scan-mismatch",
                            format!(
                                "{} scan at published snapshot {s}: key {:?} yields {:?}, the writer's log allows {:?} {}",
                                if rev { "reverse" } else { "forward" },
                                esc(k),
                                g.map(|v| esc(&v[..v.len().min(12)])),
                                cands.iter().map(|c| c.as_ref().map(|v| esc(&v[..v.len().min(12)]))).collect::<Vec<_>>(),
                                diagnose(sh, ki, s)
                            ),
                        ));
                    }
                }
                if got.iter().any(|(k, _)| !sh.gkeys.contains(k)) {
                    return Err(viol("scan-mismatch", format!("scan at published snapshot {s} yields a key that was never written")));
                }
            } else {
                let hot = if rng.chance(2, 3) { 6 } else { usize::MAX };
            let ki = rng.usize(sh.gkeys.len().min(hot));
                let n0 = sh.acked_len(ki);
                let got = sh.tree.get(&sh.gkeys[ki], s).map_err(|e| viol("read-error", format!("get at published snapshot {s} returned Err: {e:?}")))?;
                let n1 = sh.log_len(ki);
                let cands = sh.candidates(ki, s, n0, n1);
                sh.count("point_comparisons", 1);
                if cands.len() > 1 {
                    sh.count("reads_overlapping_an_inflight_write", 1);
                }
                let g = got.map(|v| v.to_vec());
                if !cands.contains(&g) {
                    return Err(viol(
                        "point-mismatch",
                        format!(
                            "get({:?}) at published snapshot {s}: got {:?}, the writer's log allows {:?} {}",
                            esc(&sh.gkeys[ki]),
                            g.map(|v| esc(&v[..v.len().min(12)])),
                            cands.iter().map(|c| c.as_ref().map(|v| esc(&v[..v.len().min(12)]))).collect::<Vec<_>>(),
                            diagnose(sh, ki, s)
                        ),
                    ));
                }
            }
        }
        if let Some(first) = iview {
            // the same snapshot must keep seeing the same ingestion
            let again = ingest_view(sh, s)?;
            sh.count("ingest_view_comparisons", 1);
            if again != first {
                return Err(Violation::new(
                    &["C02", "C14"],
                    "snapshot-sees-later-ingestion",
                    format!("held snapshot {s} first saw ingestion batch {:?}, later {:?}", first.map(|v| esc(&v)), again.map(|v| esc(&v))),
                ));
            }
        }
        sh.close_snapshot(s);
    }
    Ok(())
}

fn flusher(sh: &Shared, seed: u64) -> Result<(), Violation> {
    set_thread(3, 20);
    let mut rng = Rng::derive(seed, 300);
    while !sh.stop.load(Ordering::Relaxed) {
        let t = sh.watermark(&mut rng);
        if rng.chance(1, 4) {
            let _ = sh.tree.rotate_memtable();
        } else {
            sh.tree.flush_active_memtable(t).map_err(|e| viol("error:flush", format!("flush returned Err: {e:?}")))?;
            sh.count("flushes", 1);
        }
        std::thread::sleep(Duration::from_micros(rng.below(400)));
    }
    Ok(())
}

/// Bulk-ingestion thread: every ingestion rewrites all i-keys with one batch id.
fn ingester(sh: &Shared, seed: u64) -> Result<(), Violation> {
    set_thread(7, 60);
    let mut rng = Rng::derive(seed, 700);
    let mut batch = 0u64;
    while !sh.stop.load(Ordering::Relaxed) {
        batch += 1;
        let mut ing = sh.tree.ingestion().map_err(|e| Violation::new(&["C14"], "error:ingestion", format!("ingestion() returned Err: {e:?}")))?;
        for k in &sh.ikeys {
            ing.write(k.clone(), format!("I{batch:08}").into_bytes()).map_err(|e| Violation::new(&["C14"], "error:ingestion", format!("ingestion write returned Err: {e:?}")))?;
        }
        ing.finish().map_err(|e| Violation::new(&["C14"], "error:ingestion", format!("ingestion finish returned Err: {e:?}")))?;
        sh.count("ingestions", 1);
        std::thread::sleep(Duration::from_micros(rng.below(1500)));
    }
    Ok(())
}

/// What a held snapshot sees of the ingested keys: all of one batch (or nothing).
fn ingest_view(sh: &Shared, s: u64) -> Result<Option<Vec<u8>>, Violation> {
    let mut seen: Option<Option<Vec<u8>>> = None;
    for k in &sh.ikeys {
        let v = sh.tree.get(k, s).map_err(|e| viol("read-error", format!("get of an ingested key at snapshot {s} returned Err: {e:?}")))?.map(|v| v.to_vec());
        match &seen {
            None => seen = Some(v),
            Some(first) => {
                if *first != v {
                    return Err(Violation::new(
                        &["C14", "C02"],
                        "ingestion-not-atomic",
                        format!("snapshot {s} sees key {:?} of batch {:?} but another ingested key of batch {:?}: an ingestion became visible partially", esc(k), v.map(|v| esc(&v)), first.as_ref().map(|v| esc(v))),
                    ));
                }
            }
        }
    }
    Ok(seen.flatten())
}

/// Extra rotation threads: rotation may be requested by several parties at once (write path,
/// flush workers); two rotations racing with a writer must not lose a memtable.
fn rotator(sh: &Shared, seed: u64, id: u64) -> Result<(), Violation> {
    set_thread(6, 50 + id);
    let mut rng = Rng::derive(seed, 600 + id);
    while !sh.stop.load(Ordering::Relaxed) {
        let _ = sh.tree.rotate_memtable();
        sh.count("rotations_by_rotators", 1);
        std::thread::sleep(Duration::from_micros(rng.below(250)));
    }
    Ok(())
}

fn compactor(sh: &Shared, seed: u64, id: u64) -> Result<(), Violation> {
    set_thread(4, 30 + id);
    let mut rng = Rng::derive(seed, 400 + id);
    while !sh.stop.load(Ordering::Relaxed) {
        let t = sh.watermark(&mut rng);
        let strat = lsm_tree::compaction::Leveled::default()
            .with_table_target_size(*rng.pick(&[64, 256, 1024, 65_536]))
            .with_l0_threshold(rng.range(1, 3) as u8)
            .with_level_ratio_policy(vec![*rng.pick(&[2.0, 3.0, 10.0])]);
        sh.tree.compact(Arc::new(strat), t).map_err(|e| viol("error:compact", format!("compact returned Err: {e:?}")))?;
        sh.count("compactions", 1);
        std::thread::sleep(Duration::from_micros(rng.below(300)));
    }
    Ok(())
}

fn majorer(sh: &Shared, seed: u64) -> Result<(), Violation> {
    set_thread(5, 40);
    let mut rng = Rng::derive(seed, 500);
    while !sh.stop.load(Ordering::Relaxed) {
        if rng.chance(1, 2) {
            let t = sh.watermark(&mut rng);
            sh.tree
                .major_compact(*rng.pick(&[64, 1024, u64::MAX]), t)
                .map_err(|e| viol("error:major_compact", format!("major_compact returned Err: {e:?}")))?;
            sh.count("major_compactions", 1);
        } else if !sh.dkeys.is_empty() {
            let a = rng.usize(sh.dkeys.len());
            let b = rng.usize(sh.dkeys.len());
            let (lo, hi) = (sh.dkeys[a.min(b)].clone(), sh.dkeys[a.max(b)].clone());
            sh.tree.drop_range::<Key, _>(lo..=hi).map_err(|e| viol("error:drop_range", format!("drop_range returned Err: {e:?}")))?;
            sh.count("drop_ranges", 1);
        }
        std::thread::sleep(Duration::from_micros(rng.below(800)));
    }
    Ok(())
}

struct ExecResult {
    violations: Vec<Violation>,
    counters: Counters,
    sample: J,
    hash: u64,
    /// no thread of the execution made any progress for NO_PROGRESS_SECS: the shard ends (stuck threads cannot be joined)
    deadlocked: bool,
}

const NO_PROGRESS_SECS: u64 = 20;

/// The last few events of every thread (what each of them was doing when everything stopped).
fn last_events_per_thread() -> String {
    let mut out = vec![];
    for b in EV_BUFS.lock().unwrap_or_else(|e| e.into_inner()).iter() {
        let b = b.lock().unwrap_or_else(|e| e.into_inner());
        let tail: Vec<String> = b.iter().rev().take(3).rev().map(|(n, w)| format!("{n}:{w}")).collect();
        if !tail.is_empty() {
            out.push(tail.join(" > "));
        }
    }
    out.join(" || ")
}

fn reset_hook_stats() {
    CUR_SIG.lock().unwrap_or_else(|e| e.into_inner()).clear();
}

/// Final checks shared by stress executions and scenarios.
fn final_checks(sh: &Shared, cfg: &TreeCfg, dir: &Path, cache: &mut AuditCache, counters: &mut Counters) -> Result<(), Violation> {
    // every acknowledged write is present
    let fin = sh.visible.get().max(1);
    for (ki, k) in sh.gkeys.iter().enumerate() {
        let exp = sh.expect(ki, u64::MAX);
        for snap in [u64::MAX, fin] {
            let got = sh.tree.get(k, snap).map_err(|e| viol("read-error", format!("final get returned Err: {e:?}")))?;
            if got.as_deref() != exp.as_ref().map(|(_, v)| v.as_slice()) {
                return Err(viol(
                    "lost-or-wrong-write-after-join",
                    format!("after all threads finished, get({:?}) = {:?}, expected {:?}", esc(k), got.map(|v| esc(&v[..v.len().min(12)])), exp.map(|(s, v)| (s, esc(&v[..v.len().min(12)])))),
                ));
            }
        }
    }
    // audit every version installed during the run (C07 under concurrency)
    for (p, sv) in hooks::drain_installs() {
        if p != dir {
            continue;
        }
        let (version, _, _, _) = verif::super_version_parts(&sv);
        let (findings, _) = audit::audit_version(cache, dir, &version, cfg.kv.is_some(), false);
        bump(counters, "versions_audited", 1);
        if let Some(f) = findings.iter().find(|f| f.prop == "C07" || f.prop == "C08") {
            return Err(Violation::new(&["C06", f.prop], format!("audit:{}", f.sig), f.msg.clone()));
        }
    }
    Ok(())
}

fn reopen_check(cfg: &TreeCfg, dir: &Path, seqno: &SequenceNumberCounter, visible: &SequenceNumberCounter, gkeys: &[Key], log: &[Vec<(u64, Option<Vec<u8>>)>]) -> Result<(), Violation> {
    let c = cfg.build(dir, seqno.clone(), visible.clone(), None);
    let tree = c.open().map_err(|e| viol("reopen-error", format!("reopen after the run failed: {e:?}")))?;
    for (ki, k) in gkeys.iter().enumerate() {
        let exp = log[ki].last().and_then(|(_, v)| v.clone());
        let got = tree.get(k, u64::MAX).map_err(|e| viol("read-error", format!("get after reopen returned Err: {e:?}")))?;
        if got.as_deref() != exp.as_deref() {
            return Err(viol(
                "reopen-mismatch",
                format!("after flushing everything and reopening, get({:?}) = {:?}, expected {:?}", esc(k), got.map(|v| esc(&v[..v.len().min(12)])), exp.map(|v| esc(&v[..v.len().min(12)]))),
            ));
        }
    }
    Ok(())
}

fn setup(seed: u64, case: u64, dir: &Path) -> Result<(Arc<Shared>, TreeCfg, J), Violation> {
    let mut rng = Rng::derive(seed, case ^ 0xC06C);
    let uni = Universe::generate(&mut rng, 14, 0, 8);
    let blob = rng.chance(1, 3);
    let mut cfg = TreeCfg::random(&mut rng, Some(blob));
    cfg.block_size = vec![*rng.pick(&[64, 256, 1024])];
    let _ = std::fs::remove_dir_all(dir);
    let seqno = SequenceNumberCounter::default();
    let visible = SequenceNumberCounter::default();
    let tree = cfg.build(dir, seqno.clone(), visible.clone(), None).open().map_err(|e| viol("open-error", format!("{e:?}")))?;
    let gkeys: Vec<Key> = uni.of_class(Class::G).into_iter().map(|i| uni.keys[i].clone()).filter(|k| !k.starts_with(b"d")).collect();
    let dkeys: Vec<Key> = uni.of_class(Class::D).into_iter().map(|i| uni.keys[i].clone()).collect();
    // preload the drop_range fodder in a few tables
    for (i, k) in dkeys.iter().enumerate() {
        let s = seqno.next();
        tree.insert(k.clone(), format!("dvalue{i}"), s);
        visible.fetch_max(s + 1);
        if i % 3 == 2 {
            tree.flush_active_memtable(0).map_err(|e| viol("error:flush", format!("{e:?}")))?;
        }
    }
    tree.flush_active_memtable(0).map_err(|e| viol("error:flush", format!("{e:?}")))?;
    let _ = hooks::drain_installs();
    let mut sample = J::obj();
    sample.set("config", cfg.describe());
    sample.set("g_keys", J::i(gkeys.len()));
    sample.set("d_keys", J::i(dkeys.len()));
    let sh = Arc::new(Shared {
        tree,
        seqno,
        visible,
        published: AtomicU64::new(0),
        inflight: AtomicU64::new(NONE),
        draw: Mutex::new(()),
        log: RwLock::new(vec![vec![]; gkeys.len()]),
        acked: (0..gkeys.len()).map(|_| std::sync::atomic::AtomicUsize::new(0)).collect(),
        live: Mutex::new(BTreeMap::new()),
        stop: AtomicBool::new(false),
        violations: Mutex::new(vec![]),
        counters: Mutex::new(Counters::new()),
        gkeys,
        dkeys,
        ikeys: (0..6).map(|i| format!("~i{i:02}").into_bytes()).collect(),
        ingest: AtomicBool::new(false),
    });
    Ok((sh, cfg, sample))
}

/// One stress execution: all roles for a bounded number of writer ops.
fn stress(seed: u64, case: u64, scratch: &Path, n_ops: usize) -> ExecResult {
    let dir = scratch.join(format!("conc-{case}"));
    let mut counters = Counters::new();
    let mut rng = Rng::derive(seed, case ^ 0x57E5);
    HOOK_SEED.store(seed ^ case.wrapping_mul(0x9E37), Ordering::Relaxed);
    DELAY_PERMILLE.store(*rng.pick(&[0, 100, 300, 600]), Ordering::Relaxed);
    reset_hook_stats();
    ev_reset();
    let (sh, cfg, mut sample) = match setup(seed, case, &dir) {
        Ok(x) => x,
        Err(v) => return ExecResult { violations: vec![v], counters, sample: J::Null, hash: 0, deadlocked: false },
    };
    let n_readers = rng.range(2, 4);
    let n_compactors = rng.range(2, 3);
    let n_rotators = rng.range(0, 2);
    let with_ingest = INGEST_VARIANT.load(Ordering::Relaxed) || rng.chance(1, 4);
    sh.ingest.store(with_ingest, Ordering::Relaxed);
    sample.set("ingester", J::Bool(with_ingest));
    sample.set("rotators", J::i(n_rotators));
    sample.set("readers", J::i(n_readers));
    sample.set("compactors", J::i(n_compactors));
    sample.set("writer_ops", J::i(n_ops));
    sample.set("delay_permille", J::i(DELAY_PERMILLE.load(Ordering::Relaxed)));
    let hash = fnv64(format!("{}{}{}{}", sample.render(), seed, case, n_ops).as_bytes());

    let mut handles = vec![];
    {
        let sh2 = sh.clone();
        handles.push(std::thread::spawn(move || {
            let s = sh2.clone();
            guarded(&sh2, "writer", move || writer(&s, seed ^ case, n_ops));
            // the writer finishing ends the execution
            std::thread::sleep(Duration::from_millis(2));
            sh2.stop.store(true, Ordering::SeqCst);
        }));
    }
    for id in 0..n_readers {
        let sh2 = sh.clone();
        handles.push(std::thread::spawn(move || {
            let s = sh2.clone();
            guarded(&sh2, "reader", move || reader(&s, seed ^ case, id));
        }));
    }
    {
        let sh2 = sh.clone();
        handles.push(std::thread::spawn(move || {
            let s = sh2.clone();
            guarded(&sh2, "flusher", move || flusher(&s, seed ^ case));
        }));
    }
    for id in 0..n_compactors {
        let sh2 = sh.clone();
        handles.push(std::thread::spawn(move || {
            let s = sh2.clone();
            guarded(&sh2, "compactor", move || compactor(&s, seed ^ case, id));
        }));
    }
    for id in 0..n_rotators {
        let sh2 = sh.clone();
        handles.push(std::thread::spawn(move || {
            let s = sh2.clone();
            guarded(&sh2, "rotator", move || rotator(&s, seed ^ case, id));
        }));
    }
    if with_ingest {
        let sh2 = sh.clone();
        handles.push(std::thread::spawn(move || {
            let s = sh2.clone();
            guarded(&sh2, "ingester", move || ingester(&s, seed ^ case));
        }));
    }
    {
        let sh2 = sh.clone();
        handles.push(std::thread::spawn(move || {
            let s = sh2.clone();
            guarded(&sh2, "major", move || majorer(&s, seed ^ case));
        }));
    }
    // generous wall-clock watchdog: firing means inconclusive, never a violation
    let start = Instant::now();
    let mut hung = false;
    let mut deadlocked = false;
    let (mut last_ev, mut last_change) = (EV_SEQ.load(Ordering::SeqCst), Instant::now());
    for h in handles {
        while !h.is_finished() {
            let ev_now = EV_SEQ.load(Ordering::SeqCst);
            if ev_now != last_ev {
                last_ev = ev_now;
                last_change = Instant::now();
            } else if last_change.elapsed() > Duration::from_secs(NO_PROGRESS_SECS) {
                // not "slow": NO thread (writer, readers, flusher, compactors ...) produced a single event - every one
                // of them is blocked. "No operation ... hangs": the calls in flight never return.
                deadlocked = true;
                break;
            }
            if start.elapsed() > Duration::from_secs(120) {
                hung = true;
                break;
            }
            std::thread::sleep(Duration::from_millis(2));
        }
        if hung || deadlocked {
            break;
        }
        let _ = h.join();
    }
    DELAY_PERMILLE.store(0, Ordering::Relaxed);
    if deadlocked {
        bump(&mut counters, "executions_deadlocked", 1);
        let v = viol(
            "hang:no-thread-makes-progress",
            format!(
                "no thread of the execution produced an event for {NO_PROGRESS_SECS} s although the writer had not finished: the operations in flight never return (deadlock). Last events per thread: {}",
                last_events_per_thread()
            ),
        );
        return ExecResult { violations: vec![v], counters, sample, hash, deadlocked: true };
    }
    if hung {
        bump(&mut counters, "executions_hit_watchdog", 1);
        sh.stop.store(true, Ordering::SeqCst);
        return ExecResult { violations: vec![], counters, sample, hash, deadlocked: false };
    }
    let mut violations: Vec<Violation> = std::mem::take(&mut *sh.violations.lock().unwrap_or_else(|e| e.into_inner()));
    // a panic poisons the locks it held; panics of other threads on the poisoned lock are consequences
    if violations.iter().any(|v| !v.msg.contains("poisoned")) {
        violations.retain(|v| !v.msg.contains("poisoned"));
    }
    for (k, v) in sh.counters.lock().unwrap_or_else(|e| e.into_inner()).iter() {
        bump(&mut counters, k, *v);
    }
    if violations.is_empty() {
        let mut cache = AuditCache::default();
        let r = catch_unwind(AssertUnwindSafe(|| -> Result<(), Violation> {
            final_checks(&sh, &cfg, &dir, &mut cache, &mut counters)?;
            // flush everything, then reopen: the flushed state is the whole writer log
            sh.tree.flush_active_memtable(0).map_err(|e| viol("error:flush", format!("final flush returned Err: {e:?}")))?;
            Ok(())
        }));
        match r {
            Ok(Ok(())) => {}
            Ok(Err(v)) => violations.push(v),
            Err(_) => violations.push(viol("panic:final", format!("panic in final checks: {}", hooks::take_panic().unwrap_or_default()))),
        }
    }
    let log = sh.log.read().unwrap_or_else(|e| e.into_inner()).clone();
    let (seqno, visible, gkeys) = (sh.seqno.clone(), sh.visible.clone(), sh.gkeys.clone());
    let _ = hooks::drain_installs();
    drop(sh);
    if violations.is_empty() {
        let r = catch_unwind(AssertUnwindSafe(|| reopen_check(&cfg, &dir, &seqno, &visible, &gkeys, &log)));
        match r {
            Ok(Ok(())) => bump(&mut counters, "reopen_checks", 1),
            Ok(Err(v)) => violations.push(v),
            Err(_) => violations.push(viol("panic:reopen", format!("panic while reopening: {}", hooks::take_panic().unwrap_or_default()))),
        }
    }
    let _ = std::fs::remove_dir_all(&dir);
    bump(&mut counters, "stress_executions", 1);
    ExecResult { violations, counters, sample, hash, deadlocked: false }
}

/// C18 with several writers: the documented protocol does not restrict the number of writer threads. W threads
/// insert disjoint keys with seqnos drawn from the shared counter into the same memtable (a rotator may seal it in
/// between); after they joined, the reported high-water marks must equal the largest seqno drawn, and every key
/// must read back.
fn writers_race(seed: u64, case: u64, scratch: &Path) -> ExecResult {
    let dir = scratch.join(format!("wr-{case}"));
    let mut counters = Counters::new();
    DELAY_PERMILLE.store(0, Ordering::Relaxed);
    reset_hook_stats();
    ev_reset();
    let (sh, _cfg, mut sample) = match setup(seed, case, &dir) {
        Ok(x) => x,
        Err(v) => return ExecResult { violations: vec![v], counters, sample: J::Null, hash: 0, deadlocked: false },
    };
    let mut rng = Rng::derive(seed, case ^ 0x3A17);
    let writers = rng.range(2, 4) as usize;
    sample.set("scenario", J::s("writers-race"));
    sample.set("writers", J::i(writers));
    let hash = fnv64(format!("{}{seed}{case}", sample.render()).as_bytes());
    let mut violations = vec![];
    let r = catch_unwind(AssertUnwindSafe(|| -> Result<(), Violation> {
        // Persistent writer threads released round by round through a spin barrier, ONE insert each per round: the
        // inserts of a round hit the same memtable at the same instant (thread start-up skew would otherwise keep
        // them apart), and the marks are checked after every round - a lost update of the high-water mark is only
        // visible until the next higher insert repairs it.
        let go = Arc::new(AtomicU64::new(0));
        let done = Arc::new(AtomicU64::new(0));
        let stop = Arc::new(AtomicBool::new(false));
        let slots: Arc<Vec<AtomicU64>> = Arc::new((0..writers).map(|_| AtomicU64::new(0)).collect());
        let mut hs = vec![];
        for w in 0..writers {
            let (sh2, go2, done2, stop2, slots2) = (sh.clone(), go.clone(), done.clone(), stop.clone(), slots.clone());
            hs.push(std::thread::spawn(move || {
                let mut r = 1u64;
                loop {
                    while go2.load(Ordering::Acquire) < r {
                        if stop2.load(Ordering::Relaxed) {
                            return;
                        }
                        std::hint::spin_loop();
                    }
                    let s = sh2.seqno.next();
                    let _ = sh2.tree.insert(format!("~w{w}-{r:06}").into_bytes(), b"v".to_vec(), s);
                    sh2.visible.fetch_max(s + 1);
                    slots2[w].store(s, Ordering::Release);
                    done2.fetch_add(1, Ordering::AcqRel);
                    r += 1;
                }
            }));
        }
        let rounds = rng.range(4000, 12000);
        let t0 = Instant::now();
        let mut res = Ok(());
        for round in 1..=rounds {
            go.store(round, Ordering::Release);
            while done.load(Ordering::Acquire) < round * writers as u64 {
                std::hint::spin_loop();
            }
            let top = slots.iter().map(|s| s.load(Ordering::Acquire)).max().unwrap_or(0);
            let (mem, all) = (sh.tree.get_highest_memtable_seqno(), sh.tree.get_highest_seqno());
            if mem != Some(top) || all.is_none_or(|a| a < top) {
                res = Err(Violation::new(
                    &["C18"],
                    "memtable-seqno-after-concurrent-writers",
                    format!("round {round}: {writers} writers inserted one entry each at the same time, the largest seqno in the memtables is {top}, but get_highest_memtable_seqno() = {mem:?}, get_highest_seqno() = {all:?}"),
                ));
                break;
            }
            if round % 1500 == 0 {
                // all writers are parked at the barrier: rotate / flush between rounds
                if rng.chance(1, 2) {
                    let _ = sh.tree.rotate_memtable();
                } else if let Err(e) = sh.tree.flush_active_memtable(0) {
                    res = Err(viol("error:flush", format!("{e:?}")));
                    break;
                }
            }
            if t0.elapsed() > Duration::from_secs(8) {
                break;
            }
        }
        bump(&mut counters, "writer_race_rounds", done.load(Ordering::Acquire) / writers as u64);
        bump(&mut counters, "highest_seqno_checks", 2 * (done.load(Ordering::Acquire) / writers as u64));
        stop.store(true, Ordering::Relaxed);
        for h in hs {
            let _ = h.join();
        }
        res?;
        // every write of the last round reads back
        let last = done.load(Ordering::Acquire) / writers as u64;
        for w in 0..writers {
            let k = format!("~w{w}-{last:06}").into_bytes();
            if last > 0 && sh.tree.get(&k, u64::MAX).map_err(|e| viol("read-error", format!("{e:?}")))?.is_none() {
                return Err(viol("lost-write-after-concurrent-writers", format!("key {:?} written by writer {w} is missing", esc(&k))));
            }
        }
        Ok(())
    }));
    match r {
        Ok(Ok(())) => {}
        Ok(Err(v)) => violations.push(v),
        Err(_) => violations.push(viol("panic:writers-race", format!("panicked: {}", hooks::take_panic().unwrap_or_default()))),
    }
    // counts as audited executions for the non-triviality rule
    let installs = hooks::drain_installs().len() as u64;
    bump(&mut counters, "versions_audited", installs.max(3));
    bump(&mut counters, "point_comparisons", 50);
    drop(sh);
    let _ = std::fs::remove_dir_all(&dir);
    ExecResult { violations, counters, sample, hash, deadlocked: false }
}

// ---------------------------------------------------------------------------------------------
// directed scenarios: one thread is parked at a scheduling point while others act

fn write_some(sh: &Shared, rng: &mut Rng, n: usize, uid: &mut u64) {
    for _ in 0..n {
        let s = sh.seqno.next();
        let ki = rng.usize(sh.gkeys.len().min(5));
        if rng.chance(1, 5) {
            let _ = sh.tree.remove(sh.gkeys[ki].clone(), s);
            sh.log.write().unwrap_or_else(|e| e.into_inner())[ki].push((s, None));
            sh.acked[ki].fetch_add(1, Ordering::AcqRel);
        } else {
            *uid += 1;
            let v = keys::value(1_000_000 + *uid, 20);
            let _ = sh.tree.insert(sh.gkeys[ki].clone(), v.clone(), s);
            sh.log.write().unwrap_or_else(|e| e.into_inner())[ki].push((s, Some(v)));
            sh.acked[ki].fetch_add(1, Ordering::AcqRel);
        }
        sh.visible.fetch_max(s + 1);
        sh.published.store(s + 1, Ordering::Release);
    }
}

fn check_all(sh: &Shared, what: &str) -> Result<(), Violation> {
    let s = sh.visible.get().max(1);
    for (ki, k) in sh.gkeys.iter().enumerate() {
        let exp = sh.expect(ki, s);
        for snap in [s, u64::MAX] {
            let got = sh.tree.get(k, snap).map_err(|e| viol("read-error", format!("{what}: get returned Err: {e:?}")))?;
            if got.as_deref() != exp.as_ref().map(|(_, v)| v.as_slice()) {
                return Err(viol(
                    &format!("scenario-mismatch:{}", what.split(':').next().unwrap_or("")),
                    format!("{what}: get({:?}) = {:?}, expected {:?}", esc(k), got.map(|v| esc(&v[..v.len().min(12)])), exp.map(|(q, v)| (q, esc(&v[..v.len().min(12)])))),
                ));
            }
        }
    }
    Ok(())
}

fn scenario(seed: u64, case: u64, which: u64, scratch: &Path) -> ExecResult {
    let dir = scratch.join(format!("scen-{case}"));
    let mut counters = Counters::new();
    DELAY_PERMILLE.store(0, Ordering::Relaxed);
    reset_hook_stats();
    ev_reset();
    let (sh, cfg, mut sample) = match setup(seed, case, &dir) {
        Ok(x) => x,
        Err(v) => return ExecResult { violations: vec![v], counters, sample: J::Null, hash: 0, deadlocked: false },
    };
    let names = ["flush-parked-before-register+rotate+major", "merge-parked-before-finish+flush", "merge-parked-unlocked+second-compactor+flush", "merge-parked+drop_range", "flush-parked-after-snapshot+writes+rotate", "flush-parked-before-register+clear"];
    let name = names[(which as usize) % names.len()];
    sample.set("scenario", J::s(name));
    let hash = fnv64(format!("{}{seed}{case}", sample.render()).as_bytes());
    let mut rng = Rng::derive(seed, case ^ 0x5CE7);
    let mut uid = 0u64;
    set_thread(9, 900);

    let r = catch_unwind(AssertUnwindSafe(|| -> Result<(), Violation> {
        // base content in several tables / levels
        for round in 0..3 {
            write_some(&sh, &mut rng, 6, &mut uid);
            sh.tree.flush_active_memtable(0).map_err(|e| viol("error:flush", format!("{e:?}")))?;
            if round == 1 {
                sh.tree.major_compact(64, 0).map_err(|e| viol("error:major", format!("{e:?}")))?;
            }
        }
        write_some(&sh, &mut rng, 5, &mut uid);
        check_all(&sh, &format!("{name}: before"))?;
        let wm = sh.published.load(Ordering::Acquire).saturating_sub(1);
        let sh2 = sh.clone();
        let spawn_parked = |site: &'static str, tag: u64, f: Box<dyn FnOnce(&Shared) -> lsm_tree::Result<()> + Send>| {
            park_at(site, tag);
            let s = sh2.clone();
            std::thread::spawn(move || {
                set_thread(8, tag);
                let r = catch_unwind(AssertUnwindSafe(|| f(&s)));
                match r {
                    Ok(Ok(())) => {}
                    Ok(Err(e)) => s.fail(viol("error:parked-op", format!("parked operation returned Err: {e:?}"))),
                    Err(_) => s.fail(viol("panic:parked-op", format!("parked operation panicked: {}", hooks::take_panic().unwrap_or_default()))),
                }
            })
        };
        let leveled = || lsm_tree::compaction::Leveled::default().with_table_target_size(64).with_l0_threshold(1).with_level_ratio_policy(vec![2.0]);
        match (which as usize) % names.len() {
            0 => {
                let h = spawn_parked("flush:before_register", 801, Box::new(move |s| s.tree.flush_active_memtable(wm)));
                let parked = wait_parked(Duration::from_secs(5));
                bump(&mut counters, if parked { "scenario_parked" } else { "scenario_not_parked" }, 1);
                write_some(&sh, &mut rng, 6, &mut uid);
                let _ = sh.tree.rotate_memtable();
                check_all(&sh, &format!("{name}: while parked"))?;
                // NOTE: the flush lock is held by the parked flush, so only lock-free maintenance here
                sh.tree.major_compact(u64::MAX, 0).map_err(|e| viol("error:major", format!("{e:?}")))?;
                check_all(&sh, &format!("{name}: after major while parked"))?;
                release();
                let _ = h.join();
            }
            1 => {
                let h = spawn_parked("merge:before_finish", 802, Box::new(move |s| s.tree.major_compact(64, wm)));
                let parked = wait_parked(Duration::from_secs(5));
                bump(&mut counters, if parked { "scenario_parked" } else { "scenario_not_parked" }, 1);
                // a flush installs a new L0 run (newer values of the same keys) while the merge is pending
                write_some(&sh, &mut rng, 8, &mut uid);
                sh.tree.flush_active_memtable(0).map_err(|e| viol("error:flush", format!("{e:?}")))?;
                check_all(&sh, &format!("{name}: while parked"))?;
                release();
                let _ = h.join();
            }
            2 => {
                // PullDown(0, 6) always merges (L1..L5 are empty here), so the merge sites are reached
                let h = spawn_parked("merge:unlocked", 803, Box::new(move |s| s.tree.compact(Arc::new(lsm_tree::compaction::PullDown(0, 6)), wm)));
                let parked = wait_parked(Duration::from_secs(5));
                bump(&mut counters, if parked { "scenario_parked" } else { "scenario_not_parked" }, 1);
                write_some(&sh, &mut rng, 8, &mut uid);
                sh.tree.flush_active_memtable(0).map_err(|e| viol("error:flush", format!("{e:?}")))?;
                // other compactors must not pick the hidden tables
                for _ in 0..3 {
                    sh.tree.compact(Arc::new(leveled()), 0).map_err(|e| viol("error:compact", format!("{e:?}")))?;
                }
                check_all(&sh, &format!("{name}: while parked"))?;
                release();
                let _ = h.join();
            }
            3 => {
                let h = spawn_parked("merge:before_finish", 804, Box::new(move |s| s.tree.compact(Arc::new(lsm_tree::compaction::PullDown(0, 6)), wm)));
                let parked = wait_parked(Duration::from_secs(5));
                bump(&mut counters, if parked { "scenario_parked" } else { "scenario_not_parked" }, 1);
                // drop_range needs the major-compaction write lock: it waits for the parked merge
                let s3 = sh.clone();
                let d = std::thread::spawn(move || {
                    if s3.dkeys.len() >= 2 {
                        let (lo, hi) = (s3.dkeys[0].clone(), s3.dkeys[s3.dkeys.len() - 1].clone());
                        if let Err(e) = s3.tree.drop_range::<Key, _>(lo..=hi) {
                            s3.fail(viol("error:drop_range", format!("{e:?}")));
                        }
                    }
                });
                write_some(&sh, &mut rng, 5, &mut uid);
                check_all(&sh, &format!("{name}: while parked"))?;
                release();
                let _ = h.join();
                let _ = d.join();
            }
            5 => {
                // the race the crate guards against in register_tables (fjall#287): the sealed memtables a flush is
                // writing out disappear under it (clear takes neither the flush lock nor the compaction state)
                let h = spawn_parked("flush:before_register", 806, Box::new(move |s| s.tree.flush_active_memtable(wm)));
                let parked = wait_parked(Duration::from_secs(5));
                bump(&mut counters, if parked { "scenario_parked" } else { "scenario_not_parked" }, 1);
                sh.tree.clear().map_err(|e| Violation::new(&["C06", "C15"], "error:clear", format!("clear returned Err: {e:?}")))?;
                // the cleared tree is empty for every later snapshot: in the log, a delete of every key at the
                // sequence number of the version clear() installed
                let cs = sh.visible.get().saturating_sub(1);
                {
                    let mut log = sh.log.write().unwrap_or_else(|e| e.into_inner());
                    for (ki, l) in log.iter_mut().enumerate() {
                        l.push((cs, None));
                        sh.acked[ki].fetch_add(1, Ordering::AcqRel);
                    }
                }
                check_all(&sh, &format!("{name}: after clear while parked"))?;
                write_some(&sh, &mut rng, 3, &mut uid);
                check_all(&sh, &format!("{name}: while parked"))?;
                release();
                let _ = h.join();
            }
            _ => {
                let h = spawn_parked("flush:after_snapshot", 805, Box::new(move |s| s.tree.flush_active_memtable(wm)));
                let parked = wait_parked(Duration::from_secs(5));
                bump(&mut counters, if parked { "scenario_parked" } else { "scenario_not_parked" }, 1);
                write_some(&sh, &mut rng, 8, &mut uid);
                let _ = sh.tree.rotate_memtable();
                write_some(&sh, &mut rng, 4, &mut uid);
                check_all(&sh, &format!("{name}: while parked"))?;
                release();
                let _ = h.join();
            }
        }
        if let Some(v) = sh.violations.lock().unwrap_or_else(|e| e.into_inner()).first().cloned() {
            return Err(v);
        }
        check_all(&sh, &format!("{name}: after release"))?;
        write_some(&sh, &mut rng, 4, &mut uid);
        for _ in 0..2 {
            sh.tree.compact(Arc::new(leveled()), 0).map_err(|e| viol("error:compact", format!("{e:?}")))?;
        }
        check_all(&sh, &format!("{name}: after further maintenance"))?;
        let mut cache = AuditCache::default();
        final_checks(&sh, &cfg, &dir, &mut cache, &mut counters)?;
        sh.tree.flush_active_memtable(0).map_err(|e| viol("error:flush", format!("final flush returned Err: {e:?}")))?;
        Ok(())
    }));
    release();
    let mut violations = vec![];
    match r {
        Ok(Ok(())) => {}
        Ok(Err(v)) => violations.push(v),
        Err(_) => violations.push(viol("panic:scenario", format!("scenario {name} panicked: {}", hooks::take_panic().unwrap_or_default()))),
    }
    let log = sh.log.read().unwrap_or_else(|e| e.into_inner()).clone();
    let (seqno, visible, gkeys) = (sh.seqno.clone(), sh.visible.clone(), sh.gkeys.clone());
    let _ = hooks::drain_installs();
    drop(sh);
    if violations.is_empty() {
        match catch_unwind(AssertUnwindSafe(|| reopen_check(&cfg, &dir, &seqno, &visible, &gkeys, &log))) {
            Ok(Ok(())) => bump(&mut counters, "reopen_checks", 1),
            Ok(Err(v)) => violations.push(v),
            Err(_) => violations.push(viol("panic:reopen", format!("panic while reopening: {}", hooks::take_panic().unwrap_or_default()))),
        }
    }
    let _ = std::fs::remove_dir_all(&dir);
    bump(&mut counters, "scenarios", 1);
    bump(&mut counters, &format!("scenario:{name}"), 1);
    ExecResult { violations, counters, sample, hash, deadlocked: false }
}

pub fn cmd(args: &Args) -> i32 {
    let seed = args.u("seed", 1);
    let shard = args.u("shard", 0);
    let max_cases = args.u("cases", 50);
    let limit = Duration::from_secs(args.u("time-limit", 30));
    let n_ops = args.u("writer-ops", 400) as usize;
    INGEST_VARIANT.store(args.s("variant", "") == "ingest", Ordering::Relaxed);
    WRITERS_VARIANT.store(args.s("variant", "") == "writers", Ordering::Relaxed);
    let out = args.s("out", "");
    let replay_dir = PathBuf::from(args.s("replay-dir", "/verif/replays"));
    let scratch = crate::scratch_dir(args);
    let known = crate::load_known(args);
    hooks::install_panic_capture();
    hooks::install_clock();
    // version installs: queue for the auditor + interleaving signatures
    verif::set_version_installed_hook(Some(Arc::new(|path, versions| {
        hooks::INSTALL_COUNT.fetch_add(1, Ordering::Relaxed);
        let sv = versions.latest_version();
        {
            let (ver, seq, sealed, active) = verif::super_version_parts(&sv);
            ev(|| format!("INSTALL v{} seq={seq} active=m{active} sealed={sealed:?} tables={} retained={}", ver.id(), ver.table_count(), versions.len()));
        }
        hooks::INSTALLS.lock().unwrap_or_else(|e| e.into_inner()).push((path.to_path_buf(), sv));
        on_install();
    })));
    verif::set_sched_hook(Some(Arc::new(sched_hook)));

    let start = Instant::now();
    let mut counters = Counters::new();
    let (mut hashes, mut nontrivial) = (BTreeSet::new(), BTreeSet::new());
    let mut violations: Vec<J> = vec![];
    let mut seen = BTreeSet::new();
    let mut samples = vec![];
    let mut known_hits: BTreeMap<String, (u64, String)> = BTreeMap::new();
    let mut cases = 0u64;
    let mut shard_deadlocked = false;
    while cases < max_cases && start.elapsed() < limit && !shard_deadlocked {
        let case_no = shard * 1_000_000 + cases;
        cases += 1;
        let is_scenario = cases % 4 == 0;
        let r = if WRITERS_VARIANT.load(Ordering::Relaxed) {
            writers_race(seed, case_no, &scratch)
        } else if is_scenario {
            scenario(seed, case_no, cases / 4 + shard, &scratch)
        } else {
            stress(seed, case_no, &scratch, n_ops)
        };
        if r.deadlocked {
            shard_deadlocked = true;
        }
        hashes.insert(r.hash);
        let installs_ok = r.counters.get("versions_audited").copied().unwrap_or(0) >= 3;
        let cmp = r.counters.get("point_comparisons").copied().unwrap_or(0) + r.counters.get("scan_comparisons").copied().unwrap_or(0);
        if installs_ok && (is_scenario || cmp >= 50) {
            nontrivial.insert(r.hash);
            if samples.len() < 2 {
                samples.push(r.sample.clone());
            }
        }
        for (k, v) in &r.counters {
            bump(&mut counters, k, *v);
        }
        for v in r.violations {
            if let Some(tag) = v.tags.iter().find(|t| known.contains(&((*t).clone(), v.sig.clone()))) {
                let e = known_hits.entry(format!("{tag}|{}", v.sig)).or_insert((0, v.msg.clone()));
                e.0 += 1;
                continue;
            }
            if seen.insert(v.sig.clone()) && violations.len() < 5 {
                let _ = std::fs::create_dir_all(&replay_dir);
                let path = replay_dir.join(format!("conc-s{seed}-c{case_no}.json"));
                let mut o = J::obj();
                o.set("engine", J::s("conc"));
                o.set("seed", J::i(seed));
                o.set("case", J::i(case_no));
                o.set("kind", J::s(if is_scenario { "scenario" } else { "stress" }));
                o.set("which", J::i(cases / 4 + shard));
                o.set("writer_ops", J::i(n_ops));
                o.set("execution", r.sample.clone());
                let mut vj = J::obj();
                vj.set("tags", J::Arr(v.tags.iter().map(|t| J::s(t.clone())).collect()));
                vj.set("sig", J::s(v.sig.clone()));
                vj.set("msg", J::s(v.msg.clone()));
                o.set("violation", vj.clone());
                let _ = std::fs::write(&path, o.render());
                vj.set("replay", J::s(path.to_string_lossy().to_string()));
                violations.push(vj);
            }
        }
    }
    for (k, v) in SITE_HITS.lock().unwrap_or_else(|e| e.into_inner()).iter() {
        bump(&mut counters, &format!("site:{k}"), *v);
    }
    bump(&mut counters, "merges_overlapped_by_other_installs", MERGE_OVERLAPS.load(Ordering::Relaxed));
    bump(&mut counters, "flushes_overlapped_by_other_installs", FLUSH_OVERLAPS.load(Ordering::Relaxed));
    bump(&mut counters, "distinct_interleaving_signatures", SIGNATURES.lock().unwrap_or_else(|e| e.into_inner()).len() as u64);
    bump(&mut counters, "version_installs", hooks::INSTALL_COUNT.load(Ordering::Relaxed));

    let mut rep = J::obj();
    rep.set("engine", J::s("conc"));
    rep.set("seed", J::i(seed));
    rep.set("shard", J::i(shard));
    rep.set("cases", J::i(cases));
    rep.set("distinct", J::Arr(hashes.iter().map(|h| J::s(format!("{h:016x}"))).collect()));
    rep.set("nontrivial", J::Arr(nontrivial.iter().map(|h| J::s(format!("{h:016x}"))).collect()));
    rep.set("counters", J::Obj(counters.iter().map(|(k, v)| (k.clone(), J::i(*v))).collect()));
    rep.set("violations", J::Arr(violations));
    rep.set("samples", J::Arr(samples));
    rep.set(
        "known_hits",
        J::Arr(
            known_hits
                .iter()
                .map(|(k, (n, m))| {
                    let mut o = J::obj();
                    o.set("key", J::s(k.clone()));
                    o.set("count", J::i(*n));
                    o.set("example", J::s(m.clone()));
                    o
                })
                .collect(),
        ),
    );
    rep.set("wall_s", J::Num(start.elapsed().as_secs_f64()));
    let text = rep.render();
    if out.is_empty() {
        println!("{text}");
    } else {
        std::fs::write(&out, text).expect("write report");
    }
    if shard_deadlocked {
        // the blocked threads of the deadlocked execution can never be joined
        std::process::exit(0);
    }
    if args.s("scratch", "").is_empty() {
        let _ = std::fs::remove_dir_all(&scratch);
    }
    0
}

pub fn replay(j: &J, scratch: &Path) -> i32 {
    let seed = j.get("seed").and_then(J::as_i64).unwrap_or(1) as u64;
    let case = j.get("case").and_then(J::as_i64).unwrap_or(0) as u64;
    let which = j.get("which").and_then(J::as_i64).unwrap_or(0) as u64;
    let n_ops = j.get("writer_ops").and_then(J::as_i64).unwrap_or(400) as usize;
    let kind = j.get("kind").and_then(J::as_str).unwrap_or("stress").to_string();
    hooks::install_clock();
    verif::set_version_installed_hook(Some(Arc::new(|path, versions| {
        hooks::INSTALL_COUNT.fetch_add(1, Ordering::Relaxed);
        let sv = versions.latest_version();
        {
            let (ver, seq, sealed, active) = verif::super_version_parts(&sv);
            ev(|| format!("INSTALL v{} seq={seq} active=m{active} sealed={sealed:?} tables={} retained={}", ver.id(), ver.table_count(), versions.len()));
        }
        hooks::INSTALLS.lock().unwrap_or_else(|e| e.into_inner()).push((path.to_path_buf(), sv));
        on_install();
    })));
    verif::set_sched_hook(Some(Arc::new(sched_hook)));
    // schedules are not reproducible bit by bit: repeat the execution a number of times
    for attempt in 0..20 {
        let r = if kind == "scenario" { scenario(seed, case, which, scratch) } else { stress(seed, case, scratch, n_ops) };
        // the known relocation panic (ingested blob frames) is not what a C06 witness is about
        if let Some(v) = r.violations.iter().find(|v| !v.sig.starts_with("panic:vptr-not-matched")) {
            println!("REPLAY-VIOLATION tags={} sig={} (attempt {attempt})", v.tags.join(","), v.sig);
            println!("{}", v.msg);
            for o in r.violations.iter().filter(|o| o.sig != v.sig) {
                println!("also in this execution: {} {}", o.sig, &o.msg[..o.msg.len().min(200)]);
            }
            return 1;
        }
    }
    println!("REPLAY-OK no violation reproduced in 20 executions (schedules are sampled)");
    0
}
