//! lsmv — runtime-monitoring harness for fjall-rs/lsm-tree (see /verif/DESIGN.md).

mod audit;
mod cfg;
mod engines;
mod hooks;
mod inst;
mod json;
mod keys;
mod model;
mod ops;
mod rng;

use json::J;
use std::collections::{BTreeMap, BTreeSet};
use std::path::PathBuf;
use std::time::{Duration, Instant};

pub struct Args {
    pub cmd: String,
    pub kv: BTreeMap<String, String>,
}

impl Args {
    fn parse() -> Self {
        let mut it = std::env::args().skip(1);
        let cmd = it.next().unwrap_or_else(|| "help".into());
        let mut kv = BTreeMap::new();
        let rest: Vec<String> = it.collect();
        let mut i = 0;
        while i < rest.len() {
            if let Some(k) = rest[i].strip_prefix("--") {
                let v = rest.get(i + 1).filter(|v| !v.starts_with("--")).cloned();
                if let Some(v) = v {
                    kv.insert(k.to_string(), v);
                    i += 2;
                } else {
                    kv.insert(k.to_string(), "true".into());
                    i += 1;
                }
            } else {
                i += 1;
            }
        }
        Self { cmd, kv }
    }

    pub fn s(&self, k: &str, d: &str) -> String {
        self.kv.get(k).cloned().unwrap_or_else(|| d.to_string())
    }

    pub fn u(&self, k: &str, d: u64) -> u64 {
        self.kv.get(k).and_then(|v| v.parse().ok()).unwrap_or(d)
    }
}

pub fn scratch_dir(args: &Args) -> PathBuf {
    let base = args.s("scratch", "");
    let p = if base.is_empty() {
        PathBuf::from(format!("/dev/shm/lsmv-{}", std::process::id()))
    } else {
        PathBuf::from(base)
    };
    std::fs::create_dir_all(&p).expect("create scratch dir");
    p
}

fn mode_of(s: &str) -> engines::model::Mode {
    use engines::model::Mode;
    match s {
        "twins" => Mode::Twins,
        "tuning" => Mode::Tuning,
        "shared" => Mode::Shared,
        "fifo" => Mode::Fifo,
        _ => Mode::Single,
    }
}

/// Loads (property, signature) pairs of findings listed as "known" (never written at run time).
pub fn load_known(args: &Args) -> std::sync::Arc<BTreeSet<(String, String)>> {
    let path = args.s("known", "/verif/known_findings.json");
    let mut set = BTreeSet::new();
    if let Ok(text) = std::fs::read_to_string(&path) {
        if let Ok(j) = J::parse(&text) {
            for e in j.get("findings").and_then(J::as_arr).unwrap_or(&[]) {
                if e.get("status").and_then(J::as_str) == Some("known") {
                    let mut props: Vec<String> = vec![];
                    if let Some(p) = e.get("property").and_then(J::as_str) {
                        props.push(p.to_string());
                    }
                    for p in e.get("also_properties").and_then(J::as_arr).unwrap_or(&[]) {
                        if let Some(p) = p.as_str() {
                            props.push(p.to_string());
                        }
                    }
                    for s in e.get("signatures").and_then(J::as_arr).unwrap_or(&[]) {
                        if let Some(s) = s.as_str() {
                            for p in &props {
                                set.insert((p.clone(), s.to_string()));
                            }
                        }
                    }
                }
            }
        }
    }
    std::sync::Arc::new(set)
}

fn violation_json(v: &inst::Violation, replay: &str) -> J {
    let mut o = J::obj();
    o.set("tags", J::Arr(v.tags.iter().map(|t| J::s(t.clone())).collect()));
    o.set("sig", J::s(v.sig.clone()));
    o.set("msg", J::s(v.msg.clone()));
    o.set("replay", J::s(replay));
    o
}

fn cmd_model(args: &Args) -> i32 {
    use engines::model::{build_case, run_case, shrink};
    let profile = args.s("profile", "point");
    let mode = mode_of(&args.s("mode", "single"));
    let seed = args.u("seed", 1);
    let shard = args.u("shard", 0);
    let max_cases = args.u("cases", 50);
    let time_limit = Duration::from_secs(args.u("time-limit", 30));
    let out = args.s("out", "");
    let replay_dir = PathBuf::from(args.s("replay-dir", "/verif/replays"));
    let scratch = scratch_dir(args);
    let max_violations = args.u("max-violations", 4) as usize;

    hooks::install_panic_capture();
    hooks::install_version_queue();
    hooks::install_clock();
    let known = load_known(args);
    let focus: Option<String> = args.kv.get("focus").cloned();
    let mut known_hits: BTreeMap<String, (u64, String)> = BTreeMap::new();
    let mut other_hits: BTreeMap<String, (u64, String)> = BTreeMap::new();

    let start = Instant::now();
    let mut counters = inst::Counters::new();
    let mut layouts: BTreeSet<String> = BTreeSet::new();
    let mut pairs: BTreeSet<String> = BTreeSet::new();
    let mut hashes: BTreeSet<u64> = BTreeSet::new();
    let mut nontrivial_hashes: BTreeSet<u64> = BTreeSet::new();
    let mut violations: Vec<J> = vec![];
    let mut seen_sigs: BTreeSet<String> = BTreeSet::new();
    let mut samples: Vec<J> = vec![];
    let mut cases = 0u64;

    while cases < max_cases && start.elapsed() < time_limit {
        let case_no = shard * 1_000_000 + cases;
        let case = build_case(&profile, mode, seed, case_no);
        let r = run_case(&case, None, &scratch, "run", &known, &focus);
        for (k, (n, m)) in &r.other_hits {
            let e = other_hits.entry(k.clone()).or_insert((0, m.clone()));
            e.0 += n;
        }
        for (k, (n, m)) in &r.known_hits {
            let e = known_hits.entry(k.clone()).or_insert((0, m.clone()));
            e.0 += n;
        }
        cases += 1;
        hashes.insert(r.hash);
        let installs = r.counters.get("version_installs").copied().unwrap_or(0);
        let cmp = r.counters.get("point_comparisons").copied().unwrap_or(0) + r.counters.get("scan_comparisons").copied().unwrap_or(0);
        let rich = r.counters.get("versions_with_several_levels").copied().unwrap_or(0)
            + r.counters.get("versions_with_overlapping_l0_runs").copied().unwrap_or(0)
            + r.counters.get("versions_with_multi_table_runs").copied().unwrap_or(0);
        if installs >= 3 && cmp >= 200 && (rich > 0 || mode == engines::model::Mode::Fifo) {
            nontrivial_hashes.insert(r.hash);
            if samples.len() < 2 {
                samples.push(r.sample.clone());
            }
        }
        for (k, v) in &r.counters {
            inst::bump(&mut counters, k, *v);
        }
        layouts.extend(r.layouts.iter().cloned());
        pairs.extend(r.pairs.iter().cloned());

        if let Some(v) = &r.violation {
            let key = format!("{}|{}", v.tags.join(","), v.sig);
            if seen_sigs.insert(key) && violations.len() < max_violations {
                let failed_at = r.failed_at.unwrap_or(0);
                let (keep, best) = shrink(&case, v, failed_at, &scratch, 150, Instant::now() + Duration::from_secs(25), &known, &focus);
                let rr = run_case(&case, Some(&keep), &scratch, "final", &known, &focus);
                let _ = std::fs::create_dir_all(&replay_dir);
                let path = replay_dir.join(format!("{}-{}-s{}-c{}.json", profile, args.s("mode", "single"), seed, case_no));
                let mut o = J::obj();
                o.set("engine", J::s("model"));
                o.set("profile", J::s(profile.clone()));
                o.set("mode", J::s(args.s("mode", "single")));
                o.set("seed", J::i(seed));
                o.set("case", J::i(case_no));
                o.set("keep", J::Arr(keep.iter().map(|i| J::i(*i)).collect()));
                o.set("violation", violation_json(&best, ""));
                o.set("history", rr.sample.clone());
                let _ = std::fs::write(&path, o.render());
                violations.push(violation_json(&best, &path.to_string_lossy()));
            } else if violations.len() < 64 {
                // same signature again: count only
                inst::bump(&mut counters, "repeat_violations", 1);
            }
        }
    }

    let mut rep = J::obj();
    rep.set("engine", J::s("model"));
    rep.set("profile", J::s(profile));
    rep.set("mode", J::s(args.s("mode", "single")));
    rep.set("seed", J::i(seed));
    rep.set("shard", J::i(shard));
    rep.set("cases", J::i(cases));
    rep.set("distinct", J::Arr(hashes.iter().map(|h| J::s(format!("{h:016x}"))).collect()));
    rep.set("nontrivial", J::Arr(nontrivial_hashes.iter().map(|h| J::s(format!("{h:016x}"))).collect()));
    rep.set("counters", J::Obj(counters.iter().map(|(k, v)| (k.clone(), J::i(*v))).collect()));
    rep.set("layouts", J::Arr(layouts.iter().map(|l| J::s(l.clone())).collect()));
    rep.set("pairs", J::Arr(pairs.iter().map(|l| J::s(l.clone())).collect()));
    rep.set("violations", J::Arr(violations));
    rep.set(
        "known_hits",
        J::Arr(
            known_hits
                .iter()
                .map(|(k, (n, m))| {
                    let mut o = J::obj();
                    o.set("key", J::s(k.clone()));
                    o.set("count", J::i(*n));
                    o.set("example", J::s(m.clone()));
                    o
                })
                .collect(),
        ),
    );
    rep.set("samples", J::Arr(samples));
    rep.set(
        "other_hits",
        J::Arr(
            other_hits
                .iter()
                .map(|(k, (n, m))| {
                    let mut o = J::obj();
                    o.set("key", J::s(k.clone()));
                    o.set("count", J::i(*n));
                    o.set("example", J::s(m.clone()));
                    o
                })
                .collect(),
        ),
    );
    rep.set("wall_s", J::Num(start.elapsed().as_secs_f64()));
    let text = rep.render();
    if out.is_empty() {
        println!("{text}");
    } else {
        std::fs::write(&out, text).expect("write report");
    }
    if args.s("scratch", "").is_empty() {
        let _ = std::fs::remove_dir_all(&scratch);
    }
    0
}

fn cmd_replay(args: &Args) -> i32 {
    use engines::model::{build_case, run_case};
    let file = args.s("file", "");
    let text = std::fs::read_to_string(&file).unwrap_or_else(|e| panic!("cannot read {file}: {e}"));
    let j = J::parse(&text).unwrap_or_else(|e| panic!("bad replay file: {e}"));
    let engine = j.get("engine").and_then(J::as_str).unwrap_or("model").to_string();
    hooks::install_panic_capture();
    hooks::install_version_queue();
    hooks::install_clock();
    let scratch = scratch_dir(args);
    let code = match engine.as_str() {
        "model" => {
            let profile = j.get("profile").and_then(J::as_str).unwrap_or("point").to_string();
            let mode = mode_of(j.get("mode").and_then(J::as_str).unwrap_or("single"));
            let seed = j.get("seed").and_then(J::as_i64).unwrap_or(1) as u64;
            let case_no = j.get("case").and_then(J::as_i64).unwrap_or(0) as u64;
            let keep: Option<BTreeSet<usize>> = j.get("keep").and_then(J::as_arr).map(|a| a.iter().filter_map(J::as_i64).map(|x| x as usize).collect());
            let case = build_case(&profile, mode, seed, case_no);
            let r = run_case(&case, keep.as_ref(), &scratch, "replay", &load_known(args), &args.kv.get("focus").cloned());
            match r.violation {
                Some(v) => {
                    println!("REPLAY-VIOLATION tags={} sig={}", v.tags.join(","), v.sig);
                    println!("{}", v.msg);
                    println!("{}", r.sample.render());
                    1
                }
                None => {
                    println!("REPLAY-OK no violation reproduced ({} ops)", r.ops_total);
                    0
                }
            }
        }
        other => engines::replay_other(other, &j, &scratch),
    };
    let _ = std::fs::remove_dir_all(&scratch);
    code
}

fn main() {
    let args = Args::parse();
    let code = match args.cmd.as_str() {
        "model" => cmd_model(&args),
        "replay" => cmd_replay(&args),
        other => engines::dispatch(other, &args),
    };
    std::process::exit(code);
}
