//! Process-global hook plumbing: version-install queue, virtual clock, panic capture.

use lsm_tree::verif::{self, SuperVersion};
use std::path::PathBuf;
use std::sync::atomic::{AtomicU64, Ordering};
use std::sync::{Arc, Mutex};
use std::time::Duration;

pub static INSTALLS: Mutex<Vec<(PathBuf, SuperVersion)>> = Mutex::new(Vec::new());
pub static INSTALL_COUNT: AtomicU64 = AtomicU64::new(0);

/// Virtual clock in nanoseconds since the epoch (0 = use the real clock).
pub static CLOCK_NS: AtomicU64 = AtomicU64::new(0);

pub const CLOCK_BASE_NS: u64 = 1_700_000_000_000_000_000;

// per thread: with several threads panicking at once (a panic poisons a lock, others panic on the
// poisoned lock) a single global slot would hand a thread somebody else's message
thread_local! {
    static LAST_PANIC: std::cell::RefCell<Option<String>> = const { std::cell::RefCell::new(None) };
}

pub fn install_version_queue() {
    verif::set_version_installed_hook(Some(Arc::new(|path, versions| {
        INSTALL_COUNT.fetch_add(1, Ordering::Relaxed);
        let sv = versions.latest_version();
        INSTALLS.lock().unwrap_or_else(|e| e.into_inner()).push((path.to_path_buf(), sv));
    })));
}

pub fn drain_installs() -> Vec<(PathBuf, SuperVersion)> {
    std::mem::take(&mut *INSTALLS.lock().unwrap_or_else(|e| e.into_inner()))
}

pub fn install_clock() {
    CLOCK_NS.store(CLOCK_BASE_NS, Ordering::SeqCst);
    verif::set_now_hook(Some(Arc::new(|| {
        let ns = CLOCK_NS.load(Ordering::SeqCst);
        if ns == 0 {
            None
        } else {
            Some(Duration::from_nanos(ns))
        }
    })));
}

pub fn advance_clock(secs: u64) {
    CLOCK_NS.fetch_add(secs * 1_000_000_000, Ordering::SeqCst);
}

pub fn now_ns() -> u64 {
    CLOCK_NS.load(Ordering::SeqCst)
}

/// Installs a panic hook that records the message + location instead of printing it.
pub fn install_panic_capture() {
    std::panic::set_hook(Box::new(|info| {
        let msg = if let Some(s) = info.payload().downcast_ref::<&str>() {
            (*s).to_string()
        } else if let Some(s) = info.payload().downcast_ref::<String>() {
            s.clone()
        } else {
            "<non-string panic>".to_string()
        };
        let loc = info.location().map(|l| format!("{}:{}", l.file(), l.line())).unwrap_or_default();
        LAST_PANIC.with(|p| *p.borrow_mut() = Some(format!("{msg} @ {loc}")));
    }));
}

pub fn take_panic() -> Option<String> {
    LAST_PANIC.with(|p| p.borrow_mut().take())
}
