//! Small deterministic PRNG (splitmix64 seeding + xoshiro256**), no dependencies.

#[derive(Clone, Debug)]
pub struct Rng {
    s: [u64; 4],
}

fn splitmix(x: &mut u64) -> u64 {
    *x = x.wrapping_add(0x9E37_79B9_7F4A_7C15);
    let mut z = *x;
    z = (z ^ (z >> 30)).wrapping_mul(0xBF58_476D_1CE4_E5B9);
    z = (z ^ (z >> 27)).wrapping_mul(0x94D0_49BB_1331_11EB);
    z ^ (z >> 31)
}

impl Rng {
    pub fn new(seed: u64) -> Self {
        let mut x = seed;
        let s = [splitmix(&mut x), splitmix(&mut x), splitmix(&mut x), splitmix(&mut x)];
        Self { s }
    }

    /// Derives an independent stream from (seed, stream id).
    pub fn derive(seed: u64, stream: u64) -> Self {
        let mut x = seed ^ stream.wrapping_mul(0xD6E8_FEB8_6659_FD93);
        let _ = splitmix(&mut x);
        Self::new(splitmix(&mut x) ^ stream)
    }

    pub fn next_u64(&mut self) -> u64 {
        let r = self.s[1].wrapping_mul(5).rotate_left(7).wrapping_mul(9);
        let t = self.s[1] << 17;
        self.s[2] ^= self.s[0];
        self.s[3] ^= self.s[1];
        self.s[1] ^= self.s[2];
        self.s[0] ^= self.s[3];
        self.s[2] ^= t;
        self.s[3] = self.s[3].rotate_left(45);
        r
    }

    /// Uniform in [0, n) (n > 0).
    pub fn below(&mut self, n: u64) -> u64 {
        debug_assert!(n > 0);
        self.next_u64() % n
    }

    pub fn usize(&mut self, n: usize) -> usize {
        self.below(n as u64) as usize
    }

    /// Uniform in [lo, hi] inclusive.
    pub fn range(&mut self, lo: u64, hi: u64) -> u64 {
        lo + self.below(hi - lo + 1)
    }

    pub fn chance(&mut self, num: u64, den: u64) -> bool {
        self.below(den) < num
    }

    pub fn pick<'a, T>(&mut self, xs: &'a [T]) -> &'a T {
        &xs[self.usize(xs.len())]
    }

    /// Index drawn according to integer weights.
    pub fn weighted(&mut self, weights: &[u32]) -> usize {
        let total: u64 = weights.iter().map(|&w| u64::from(w)).sum();
        let mut x = self.below(total.max(1));
        for (i, &w) in weights.iter().enumerate() {
            if x < u64::from(w) {
                return i;
            }
            x -= u64::from(w);
        }
        weights.len() - 1
    }

    pub fn shuffle<T>(&mut self, xs: &mut [T]) {
        for i in (1..xs.len()).rev() {
            let j = self.usize(i + 1);
            xs.swap(i, j);
        }
    }
}

pub fn fnv64(bytes: &[u8]) -> u64 {
    let mut h: u64 = 0xcbf2_9ce4_8422_2325;
    for &b in bytes {
        h ^= u64::from(b);
        h = h.wrapping_mul(0x0100_0000_01b3);
    }
    h
}
