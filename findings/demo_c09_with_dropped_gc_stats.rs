// Demonstrations: drop_range on a KV-separated tree records wrong blob garbage statistics.
use lsm_tree::{AbstractTree, Config, KvSeparationOptions, SequenceNumberCounter, CompressionType};
use lsm_tree::config::BlockSizePolicy;

fn tree(folder: &std::path::Path, lz4: bool) -> lsm_tree::Result<lsm_tree::AnyTree> {
    Config::new(folder, SequenceNumberCounter::default(), SequenceNumberCounter::default())
        .data_block_size_policy(BlockSizePolicy::all(1))
        .with_kv_separation(Some(
            KvSeparationOptions::default()
                .separation_threshold(1)
                .compression(if lz4 { CompressionType::Lz4 } else { CompressionType::None }),
        ))
        .open()
}

// (a) the on-disk byte count is only recorded for the first dropped table that links a blob file
#[test]
fn drop_range_undercounts_stale_on_disk_bytes() -> lsm_tree::Result<()> {
    let folder = tempfile::tempdir()?;
    let tree = tree(folder.path(), false)?;
    for k in ["a", "b", "c", "d"] {
        tree.insert(k, "x".repeat(100), 0);
    }
    tree.flush_active_memtable(0)?;
    tree.major_compact(1, 0)?; // one table per key, all pointing into blob file 0
    assert_eq!(4, tree.table_count());
    assert_eq!(1, tree.blob_file_count());

    tree.drop_range("a"..="a")?;
    let one = tree.stale_blob_bytes();
    assert_eq!(100, one);
    tree.drop_range("b"..="b")?;
    // two of four equally sized blobs are garbage now
    assert_eq!(2 * one, tree.stale_blob_bytes());
    Ok(())
}

// (b) statistics of a blob file that was dropped together with its last table stay in the map
#[test]
fn drop_range_keeps_stats_of_dropped_blob_file() -> lsm_tree::Result<()> {
    let folder = tempfile::tempdir()?;
    let tree = tree(folder.path(), false)?;
    tree.insert("a", "x".repeat(100), 0);
    tree.flush_active_memtable(0)?;
    assert_eq!(1, tree.blob_file_count());
    tree.drop_range::<&str, _>(..)?;
    assert_eq!(0, tree.table_count());
    assert_eq!(0, tree.blob_file_count());
    // no blob file is left, so nothing on disk is stale
    assert_eq!(0, tree.stale_blob_bytes());
    Ok(())
}
