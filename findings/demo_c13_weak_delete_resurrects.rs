// Demonstration: a history that respects the single-delete discipline (every remove_weak is
// preceded by exactly one insert since the previous remove_weak) in which remove_weak does NOT
// behave like remove: the key comes back after a flush.
use lsm_tree::{AbstractTree, Config, SeqNo, SequenceNumberCounter};

fn run(weak: bool) -> lsm_tree::Result<Option<lsm_tree::UserValue>> {
    let folder = tempfile::tempdir()?;
    let tree = Config::new(&folder, SequenceNumberCounter::default(), SequenceNumberCounter::default()).open()?;
    let del = |seqno| {
        if weak {
            tree.remove_weak("k", seqno)
        } else {
            tree.remove("k", seqno)
        }
    };
    tree.insert("k", "v1", 0);
    tree.flush_active_memtable(0)?; // v1 now lives in its own table
    del(1);
    tree.insert("k", "v2", 2);
    del(3);
    // no snapshot is open: the watermark may be as high as the current seqno
    tree.flush_active_memtable(4)?;
    tree.get("k", SeqNo::MAX)
}

#[test]
fn weak_delete_behaves_like_delete_for_keys_written_once() -> lsm_tree::Result<()> {
    assert_eq!(None, run(false)?, "remove");
    assert_eq!(None, run(true)?, "remove_weak must behave like remove");
    Ok(())
}
