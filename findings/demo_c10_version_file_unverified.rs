// Demonstration: one altered byte in the version file is not detected on recovery. The tree opens,
// silently drops a table from the recovered version (deleting its file as an "orphan") and serves
// an older value.
use lsm_tree::{AbstractTree, Config, SeqNo, SequenceNumberCounter};

#[test]
fn corrupted_version_file_is_reported() -> lsm_tree::Result<()> {
    let folder = tempfile::tempdir()?;
    {
        let tree = Config::new(&folder, SequenceNumberCounter::default(), SequenceNumberCounter::default()).open()?;
        tree.insert("k", "old", 0);
        tree.flush_active_memtable(0)?; // table 0
        tree.insert("k", "new", 1);
        tree.flush_active_memtable(0)?; // table 1 (first L0 run)
        assert_eq!(Some("new".as_bytes().into()), tree.get("k", SeqNo::MAX)?);
    }
    // the "tables" section of v2 starts with: level count, run count of L0, table count (u32), table id (u64) ...
    let path = folder.path().join("v2");
    let mut bytes = std::fs::read(&path)?;
    let reader = sfa::Reader::new(&path).unwrap();
    let sec = reader.toc().section(b"tables").unwrap();
    let id_pos = sec.pos() as usize + 1 + 1 + 4;
    assert_eq!(1, bytes[id_pos], "first table of the first L0 run should be table 1");
    bytes[id_pos] = 0; // table id 1 -> 0
    std::fs::write(&path, bytes)?;

    match Config::new(&folder, SequenceNumberCounter::default(), SequenceNumberCounter::default()).open() {
        Err(_) => {} // reported: fine
        Ok(tree) => {
            let got = tree.get("k", SeqNo::MAX);
            match got {
                Err(_) => {}
                Ok(v) => assert_eq!(Some("new".as_bytes().into()), v, "a corrupted version file was served as data"),
            }
        }
    }
    Ok(())
}
