// Demonstration (integration test against the public API): after clear(), the table files of the
// cleared version are never deleted during the session, whatever maintenance runs afterwards.
use lsm_tree::{AbstractTree, Config, SequenceNumberCounter};

#[test]
fn clear_leaks_table_files_until_reopen() -> lsm_tree::Result<()> {
    let folder = tempfile::tempdir()?;
    let seqno = SequenceNumberCounter::default();
    let visible = SequenceNumberCounter::default();
    let tree = Config::new(&folder, seqno.clone(), visible.clone()).open()?;

    for i in 0..3u8 {
        let s = seqno.next();
        tree.insert([b'a' + i], "value", s);
        visible.fetch_max(s + 1);
        tree.flush_active_memtable(0)?;
    }
    assert_eq!(3, tree.table_count());
    let count_files = || std::fs::read_dir(folder.path().join("tables")).unwrap().count();
    assert_eq!(3, count_files());

    tree.clear()?;
    assert_eq!(0, tree.table_count());

    // later version changes with a watermark above everything; no reader holds anything
    for i in 0..2u8 {
        let s = seqno.next();
        tree.insert([b'x' + i], "value", s);
        visible.fetch_max(s + 1);
        tree.flush_active_memtable(visible.get() - 1)?;
    }
    tree.major_compact(u64::MAX, visible.get() - 1)?;
    assert_eq!(1, tree.version_free_list_len().min(1));

    // only the tables of retained versions may remain (current: 1 table, previous version: 2 tables)
    assert!(count_files() <= 3, "table files of the cleared version are still on disk: {} files", count_files());
    Ok(())
}
