// Demonstration: on a key-value-separated tree, a compaction that relocates blob files written by
// bulk ingestion panics ("vptr was not matched with blob"); the same history on a standard tree
// succeeds. Bulk ingestion writes its blob frames with seqno 0, but the relocating compaction
// merges the blob files by (key, frame seqno) and expects the order of the table stream.
use lsm_tree::{AbstractTree, Config, KvSeparationOptions, SeqNo, SequenceNumberCounter, CompressionType};
use lsm_tree::config::BlockSizePolicy;

fn run(kv: bool) -> lsm_tree::Result<()> {
    let folder = tempfile::tempdir()?;
    let mut cfg = Config::new(&folder, SequenceNumberCounter::default(), SequenceNumberCounter::default())
        .data_block_size_policy(BlockSizePolicy::all(1));
    if kv {
        cfg = cfg.with_kv_separation(Some(
            KvSeparationOptions::default()
                .separation_threshold(1)
                .staleness_threshold(0.01)
                .age_cutoff(1.0)
                .compression(CompressionType::None),
        ));
    }
    let tree = cfg.open()?;
    // two ingestions writing the same key (and one more key each, to create garbage later)
    for round in 0..2u8 {
        let mut ing = tree.ingestion()?;
        ing.write("k", format!("value-{round}"))?;
        ing.write(format!("z{round}"), "zzz")?;
        ing.finish()?;
    }
    tree.major_compact(1, 0)?; // one table per key; keep all versions (watermark 0)
    tree.drop_range("z".."zz")?; // garbage in both blob files -> both become relocation candidates
    tree.major_compact(u64::MAX, 0)?;
    assert_eq!(Some("value-1".as_bytes().into()), tree.get("k", SeqNo::MAX)?);
    Ok(())
}

#[test]
fn relocation_of_ingested_blobs() -> lsm_tree::Result<()> {
    run(false)?;
    run(true)?;
    Ok(())
}
