// Demonstration: the garbage statistics of a blob file that drop_range removed survive in the
// manifest; after a reopen the blob file id is handed out again, the *new* blob file inherits the
// stale statistics, is considered dead, and the next compaction deletes it although a table still
// points into it -> the value is lost (the read panics with "did not match any blob").
use lsm_tree::{AbstractTree, Config, KvSeparationOptions, SeqNo, SequenceNumberCounter, CompressionType};

fn open(folder: &std::path::Path) -> lsm_tree::Result<lsm_tree::AnyTree> {
    Config::new(folder, SequenceNumberCounter::default(), SequenceNumberCounter::default())
        .with_kv_separation(Some(
            KvSeparationOptions::default().separation_threshold(1).compression(CompressionType::None),
        ))
        .open()
}

#[test]
fn stale_blob_stats_kill_a_new_blob_file_after_reopen() -> lsm_tree::Result<()> {
    let folder = tempfile::tempdir()?;
    {
        let tree = open(folder.path())?;
        tree.insert("a", "x".repeat(100), 0);
        tree.flush_active_memtable(0)?;
        assert_eq!(1, tree.blob_file_count());
        tree.drop_range::<&str, _>(..)?; // blob file 0 leaves the version, its statistics stay
        assert_eq!(0, tree.blob_file_count());
    }
    {
        let tree = open(folder.path())?;
        tree.insert("b", "y".repeat(100), 1);
        tree.flush_active_memtable(0)?; // new blob file, id 0 again
        assert_eq!(1, tree.blob_file_count());
        assert_eq!(Some("y".repeat(100).as_bytes().into()), tree.get("b", SeqNo::MAX)?);

        tree.major_compact(u64::MAX, 0)?;

        assert_eq!(1, tree.blob_file_count(), "the blob file that key b points into was dropped from the version");

        let got = std::panic::catch_unwind(std::panic::AssertUnwindSafe(|| tree.get("b", SeqNo::MAX)));
        match got {
            Ok(Ok(Some(v))) => assert_eq!(&*v, "y".repeat(100).as_bytes()),
            other => panic!("value of key b was lost by the compaction: {:?}", other.map(|r| r.map(|o| o.map(|v| v.len())))),
        }
    }
    Ok(())
}

#[test]
fn stale_blob_stats_lose_data_across_another_reopen() -> lsm_tree::Result<()> {
    let folder = tempfile::tempdir()?;
    {
        let tree = open(folder.path())?;
        tree.insert("a", "x".repeat(100), 0);
        tree.flush_active_memtable(0)?;
        tree.drop_range::<&str, _>(..)?;
    }
    {
        let tree = open(folder.path())?;
        tree.insert("b", "y".repeat(100), 1);
        tree.flush_active_memtable(0)?;
        tree.major_compact(u64::MAX, 0)?;
    }
    {
        // fresh cache, fresh descriptor table
        let tree = open(folder.path())?;
        let got = std::panic::catch_unwind(std::panic::AssertUnwindSafe(|| tree.get("b", SeqNo::MAX)));
        match got {
            Ok(Ok(Some(v))) => assert_eq!(&*v, "y".repeat(100).as_bytes()),
            other => panic!("value of key b was lost: {:?}", other.map(|r| r.map(|o| o.map(|v| v.len())))),
        }
    }
    Ok(())
}
