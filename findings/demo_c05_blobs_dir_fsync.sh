#!/bin/bash
# Demonstration: a KV-separated flush returns Ok and publishes a version that names a new blob
# file, but the blobs/ directory is never fsynced, so (POSIX) the blob file's directory entry can
# be lost in a crash while the version that references it is durable -> Unrecoverable on open.
# Checks the syscall order of a tiny workload: fsync(blobs/) must happen after the blob file is
# created and before `current` is renamed into place. Exit 0 = ordered correctly, 1 = defect.
set -e
W=$(mktemp -d /dev/shm/demo-c05-XXXX); trap 'rm -rf $W' EXIT
BIN=${LSMV_BIN:-/verif/harness/target/release/lsmv}
for case in 0 1 2 3 4 5 6 7; do
  rm -rf $W/tree $W/markers
  strace -f -y -o $W/trace -e trace=openat,fsync,fdatasync,renameat,renameat2,rename,unlink,unlinkat $BIN crashrun --seed 424242 --case $case --dir $W/tree --markers $W/markers >/dev/null 2>&1
  python3 - $W/trace <<'PY'
import re,sys
pending=set(); bad=0; seen_blob=False
for l in open(sys.argv[1]):
    m=re.search(r'openat\(.*"([^"]*/blobs/\d+)", [^)]*O_CREAT',l)
    if m and '= -1' not in l: pending.add(m.group(1)); seen_blob=True
    if re.search(r'fsync\(\d+<[^>]*/blobs>\)',l): pending.clear()
    m=re.search(r'unlink(at)?\(.*"([^"]*/blobs/\d+)"',l)
    if m: pending.discard(m.group(2))
    if re.search(r'rename(at2?)?\(.*/current"',l) and pending:
        print("current published while blob file dir entries are not fsynced:",sorted(pending)); bad=1; break
sys.exit(2 if not seen_blob else bad)
PY
  rc=$?
  if [ $rc = 1 ]; then exit 1; fi
  if [ $rc = 0 ]; then echo "case $case: blobs/ fsynced before publish"; exit 0; fi
done
echo "no KV-separated case produced a blob file"; exit 3
