// Demonstration (needs --features lz4): the "real value length" field of a blob frame header is
// not covered by the blob checksum. With LZ4 blob compression the reader sizes an *uninitialised*
// buffer from it and never checks how many bytes the decompressor produced: enlarging the field
// makes get() return the value followed by uninitialised bytes instead of an error.
use lsm_tree::{AbstractTree, CompressionType, Config, KvSeparationOptions, SeqNo, SequenceNumberCounter};

fn cfg(folder: &std::path::Path) -> Config {
    Config::new(folder, SequenceNumberCounter::default(), SequenceNumberCounter::default()).with_kv_separation(Some(
        KvSeparationOptions::default().separation_threshold(1).compression(CompressionType::Lz4),
    ))
}

#[test]
fn corrupted_blob_length_field_is_reported() -> lsm_tree::Result<()> {
    let folder = tempfile::tempdir()?;
    let value = "abcdefgh".repeat(40);
    {
        let tree = cfg(folder.path()).open()?;
        tree.insert("k", value.as_str(), 0);
        tree.flush_active_memtable(0)?;
    }
    // frame header: magic(4) checksum(16) seqno(8) key_len(2) real_len(4) on_disk_len(4)
    let path = folder.path().join("blobs").join("0");
    let mut bytes = std::fs::read(&path)?;
    assert_eq!(&bytes[0..4], b"BLOB");
    let real = u32::from_le_bytes(bytes[30..34].try_into().unwrap());
    assert_eq!(real as usize, value.len());
    bytes[30..34].copy_from_slice(&(real + 64).to_le_bytes());
    std::fs::write(&path, bytes)?;

    let tree = cfg(folder.path()).open()?;
    match tree.get("k", SeqNo::MAX) {
        Err(_) => {} // reported
        Ok(got) => assert_eq!(Some(value.as_bytes().into()), got, "a corrupted blob frame was served as data"),
    }
    Ok(())
}
